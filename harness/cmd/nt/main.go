// Command nt binds NumTheory.tla to the real arithmetic helpers of gabi (C19): internal/common
// (mathutil.go, fastmod.go, randomprime.go through the tag-guarded re-export package verifx),
// safeprime and zkproof.Group.
//
//	nt replay --in tables.ndjson     spec -> code: expected-result tables printed by TLC (NumTheoryGen.tla) are compared
//	                                 with what the real helpers return on the same exhaustive small domains
//	nt record <trace.ndjson>         code -> spec: the real helpers are called on whole small domains (enumerated by the
//	                                 harness itself) and on aliased-operand variants; (function, args, result) records
//	                                 are written for NumTheoryTrace.tla, which decides every one of them
//	nt large                         random operands up to 4096 bits (seeded): outside TLC's arithmetic, the same relations
//	                                 are evaluated with math/big (weaker binding, reported separately)
//
// The harness never decides a small-domain case by itself: in `replay` it only looks results up in TLC's tables,
// in `record` it only writes down what the code returned.
package main

import (
	"bytes"
	"bufio"
	"encoding/json"
	"fmt"
	"io"
	gobig "math/big"
	mrand "math/rand"
	"os"
	"strings"
	"time"

	"verifharness/hx"

	"github.com/privacybydesign/gabi/big"
	"github.com/privacybydesign/gabi/safeprime"
	"github.com/privacybydesign/gabi/verifx"
	"github.com/privacybydesign/gabi/zkproof"
)

// sentinel for values that do not fit TLC's integers; every postcondition of the trace specification starts with a
// range guard, which such a value fails.
const sentinel = 2000000000

func bi(x int64) *big.Int { return big.NewInt(x) }

func num(x *big.Int) int64 {
	if x == nil || !x.IsInt64() {
		return sentinel
	}
	v := x.Int64()
	if v > 1<<30 || v < -(1<<30) {
		return sentinel
	}
	return v
}

// keeper remembers operand values and tells afterwards whether a call changed any of them.
type keeper struct {
	ptr []*big.Int
	val []*gobig.Int
}

func keep(xs ...*big.Int) *keeper {
	k := &keeper{}
	for _, x := range xs {
		k.ptr = append(k.ptr, x)
		k.val = append(k.val, new(gobig.Int).Set(x.Go()))
	}
	return k
}
func (k *keeper) ok() bool {
	for i, p := range k.ptr {
		if p.Go().Cmp(k.val[i]) != 0 {
			return false
		}
	}
	return true
}

// detReader is a seeded byte source with a budget, so that a prime search that cannot succeed ends with an error.
type detReader struct {
	r    *mrand.Rand
	left int
}

func (d *detReader) Read(p []byte) (int, error) {
	if d.left < len(p) {
		return 0, io.ErrUnexpectedEOF
	}
	d.left -= len(p)
	for i := range p {
		p[i] = byte(d.r.Intn(256))
	}
	return len(p), nil
}

func genSafePrime(bits int) *big.Int {
	stop := make(chan struct{})
	t := time.AfterFunc(60*time.Second, func() { close(stop) })
	defer t.Stop()
	p, err := safeprime.Generate(bits, stop)
	if err != nil {
		hx.Fatal("safeprime.Generate(%d): %v", bits, err)
	}
	if p == nil {
		hx.Fatal("safeprime.Generate(%d) did not return within 60 s (domain note N3)", bits)
	}
	return p
}

func main() {
	if len(os.Args) < 2 {
		hx.Fatal("usage: nt replay|record|large ...")
	}
	sub := os.Args[1]
	os.Args = append(os.Args[:1], os.Args[2:]...)
	a := hx.ParseArgs()
	res := hx.NewResult()
	switch sub {
	case "replay":
		replay(a, res)
	case "record":
		record(a, res)
	case "large":
		large(a, res)
	case "groups":
		groups(a)
		return
	default:
		hx.Fatal("unknown sub-command %q", sub)
	}
	res.Write(a.Out)
}

// ====================================================================== spec -> code

type row struct {
	T      string          `json:"t"`
	P      int64           `json:"p"`
	N      int64           `json:"n"`
	Pa     int64           `json:"pa"`
	Pb     int64           `json:"pb"`
	M      int64           `json:"m"`
	X      int64           `json:"x"`
	Y0     int64           `json:"y0"`
	B      int64           `json:"b"`
	C      int64           `json:"c"`
	N0     int64           `json:"n0"`
	Start  int64           `json:"start"`
	Len    int64           `json:"len"`
	Bits   int64           `json:"bits"`
	Gp     int64           `json:"gp"`
	Gq     int64           `json:"gq"`
	Built  bool            `json:"built"`
	G      int64           `json:"g"`
	H      int64           `json:"h"`
	E0     int64           `json:"e0"`
	V      json.RawMessage `json:"v"`
	Fs     []int64         `json:"fs"`
	Sq     []int64         `json:"sq"`
	Qr     []bool          `json:"qr"`
	Xs     []int64         `json:"xs"`
	Rs     []int64         `json:"rs"`
	Prime  []bool          `json:"prime"`
	Safe   []bool          `json:"safe"`
	Primes []int64         `json:"primes"`
	Vg     []int64         `json:"vg"`
	Vh     []int64         `json:"vh"`
}

func (r *row) vec() []int64 {
	var v []int64
	if err := json.Unmarshal(r.V, &v); err != nil {
		hx.Fatal("row %s: v is not a vector: %v", r.T, err)
	}
	return v
}
func (r *row) mat() [][]int64 {
	var v [][]int64
	if err := json.Unmarshal(r.V, &v); err != nil {
		hx.Fatal("row %s: v is not a matrix: %v", r.T, err)
	}
	return v
}

type replayer struct {
	res  *hx.Result
	raw  json.RawMessage
	seed int64
	fm   verifx.FastMod // deliberately reused over all moduli: Set must fully re-initialise
}

// call runs f, reports a panic as a violation and returns false in that case.
func (rp *replayer) call(fn string, args hx.M, f func()) bool {
	p, msg := hx.Try(f)
	if p {
		rp.bad(fn, "panics: "+msg, args)
	}
	return !p
}

func (rp *replayer) bad(fn, what string, args hx.M) {
	rp.res.Violation("table-mismatch:"+fn, fmt.Sprintf("%s%v %s", fn, compact(args), what), hx.M{"fn": fn, "args": args, "case": rp.raw})
}

func compact(m hx.M) string {
	b, _ := json.Marshal(m)
	return string(b)
}

// nt groups --n MAX: what zkproof.BuildGroup makes of every safe prime below MAX, as the TLA+ module GroupGens (the
// generators are derived from the prime by hashing since c2894e6; the specification takes them as given and checks the
// contract: two different elements of order (P-1)/2)
func groups(a *hx.Args) {
	max := int64(a.N)
	if max <= 0 {
		max = 256
	}
	var b strings.Builder
	b.WriteString("---------------------------- MODULE GroupGens ----------------------------\n")
	b.WriteString("\\* generated by `nt groups` from zkproof.BuildGroup of the tree under check: safe prime |-> <<built, G, H>>\n")
	b.WriteString("EXTENDS Integers, TLC\n")
	b.WriteString("CodeGens == (")
	first := true
	for P := int64(5); P < max; P += 2 {
		if !(isPrimeBig(P) && isPrimeBig((P-1)/2)) {
			continue
		}
		built, g, h := buildGroupTimed(P)
		if !first {
			b.WriteString(" @@ ")
		}
		first = false
		fmt.Fprintf(&b, "(%d :> <<%s, %d, %d>>)", P, map[bool]string{true: "TRUE", false: "FALSE"}[built], g, h)
	}
	b.WriteString(")\n=============================================================================\n")
	if err := os.WriteFile(a.Out, []byte(b.String()), 0o644); err != nil {
		hx.Fatal("write: %v", err)
	}
}

// buildGroupTimed: BuildGroup in a goroutine (it did not return for P = 5 once, D57); a call that does not return within 10 s
// counts as not built, with generators -1
func buildGroupTimed(P int64) (bool, int64, int64) {
	type out struct {
		ok   bool
		g, h int64
	}
	ch := make(chan out, 1)
	go func() {
		var o out
		hx.Try(func() {
			g, ok := zkproof.BuildGroup(bi(P))
			o.ok = ok
			if ok {
				o.g, o.h = num(g.G), num(g.H)
			}
		})
		ch <- o
	}()
	select {
	case o := <-ch:
		return o.ok, o.g, o.h
	case <-time.After(10 * time.Second):
		return false, -1, -1
	}
}

func replay(a *hx.Args, res *hx.Result) {
	rows := hx.ReadNDJSON(a.In)
	if len(rows) == 0 {
		hx.Fatal("no table rows in %s", a.In)
	}
	seenEnd := false
	parsed := make([]row, len(rows))
	for i, raw := range rows {
		if err := json.Unmarshal(raw, &parsed[i]); err != nil {
			hx.Fatal("bad table row: %v", err)
		}
		res.Count("rows:" + parsed[i].T)
		switch parsed[i].T {
		case "leg", "jac", "inv", "sqrt", "crt", "pow", "fm", "pr", "rpir", "spsize", "gexp":
		case "end":
			seenEnd = true
		default:
			hx.Fatal("unknown table %q", parsed[i].T)
		}
	}
	// rows are independent: all cores; only the FastMod rows run in sequence, on one FastMod value that is re-Set per modulus
	hx.Parallel(len(rows), func(i int) {
		r := &parsed[i]
		rp := &replayer{res: res, seed: a.Seed, raw: rows[i]}
		switch r.T {
		case "leg":
			rp.symbol("LegendreSymbol", r.P, r.vec())
		case "jac":
			rp.symbol("LegendreSymbol(Jacobi)", r.N, r.vec())
		case "inv":
			rp.inverse(r.N, r.vec())
		case "sqrt":
			rp.sqrt(r)
		case "crt":
			rp.crt(r.Pa, r.Pb, r.mat())
		case "pow":
			rp.pow(r.M, r.X, r.Y0, r.vec())
		case "pr":
			rp.safeTest(r)
		case "rpir":
			rp.primeInRange(r)
		case "spsize":
			rp.safeGen(r)
		case "gexp":
			rp.group(r)
		}
	})
	rp := &replayer{res: res, seed: a.Seed}
	for i := range parsed {
		if parsed[i].T == "fm" {
			rp.raw = rows[i]
			rp.fastmod(&parsed[i])
		}
	}
	if !seenEnd {
		hx.Fatal("table stream is incomplete (no end marker)")
	}
	res.Sample(hx.M{"direction": "spec->code", "rows": len(rows), "note": "every row is one modulus with the expected results on its whole residue range"})
}

func (rp *replayer) symbol(fn string, n int64, v []int64) {
	if int64(len(v)) != n {
		hx.Fatal("%s row %d: %d entries", fn, n, len(v))
	}
	for a := -n; a <= 2*n; a++ {
		A, N := bi(a), bi(n)
		k := keep(A, N)
		var got int
		args := hx.M{"a": a, "p": n}
		if !rp.call(fn, args, func() { got = verifx.LegendreSymbol(A, N) }) {
			continue
		}
		want := v[((a%n)+n)%n]
		cls := "res"
		if a < 0 {
			cls = "neg"
		} else if a >= n {
			cls = "unreduced"
		}
		rp.res.Eval(fmt.Sprintf("%s/%d/%s/%d", fn, n, cls, want))
		if int64(got) != want {
			rp.bad(fn, fmt.Sprintf("= %d, specification says %d", got, want), args)
		}
		if !k.ok() {
			rp.bad(fn, "modified an operand", args)
		}
		if n == 17 && a == -14 && fn == "LegendreSymbol" {
			rp.res.Sample(hx.M{"call": "LegendreSymbol(-14, 17)", "real": got, "tlc_table": want})
		}
	}
	// same big.Int as both operands
	N := bi(n)
	var got int
	if rp.call(fn, hx.M{"a": n, "p": n, "aliased": true}, func() { got = verifx.LegendreSymbol(N, N) }) {
		rp.res.Eval(fmt.Sprintf("%s/%d/aliased", fn, n))
		if int64(got) != v[0] || N.Cmp(bi(n)) != 0 {
			rp.bad(fn, fmt.Sprintf("= %d with a and p the same big.Int, specification says %d (operand afterwards %v)", got, v[0], N), hx.M{"a": n, "p": n, "aliased": true})
		}
	}
}

func (rp *replayer) inverse(n int64, v []int64) {
	for a := int64(0); a < n; a++ {
		A, N := bi(a), bi(n)
		k := keep(A, N)
		var x *big.Int
		var ok bool
		args := hx.M{"a": a, "n": n}
		if !rp.call("ModInverse", args, func() { x, ok = verifx.ModInverse(A, N) }) {
			continue
		}
		want := v[a]
		cls := "inv"
		if want == 0 {
			cls = "none"
		}
		rp.res.Eval(fmt.Sprintf("ModInverse/%d/%s", n, cls))
		switch {
		case want == 0 && ok:
			rp.bad("ModInverse", fmt.Sprintf("reports an inverse (%v) where none exists", x), args)
		case want != 0 && !ok:
			rp.bad("ModInverse", fmt.Sprintf("reports no inverse, specification says %d", want), args)
		case want != 0 && (x == nil || num(x) != want):
			rp.bad("ModInverse", fmt.Sprintf("= %v, specification says %d", x, want), args)
		}
		if !k.ok() {
			rp.bad("ModInverse", "modified an operand", args)
		}
	}
}

func (rp *replayer) sqrt(r *row) {
	n := r.N
	if int64(len(r.Sq)) != n || int64(len(r.Qr)) != n {
		hx.Fatal("sqrt row %d: wrong vector length", n)
	}
	check := func(fn string, a int64, root *big.Int, ok bool, args hx.M) {
		cls := "nonresidue"
		if r.Qr[a] {
			cls = "residue"
		}
		rp.res.Eval(fmt.Sprintf("%s/%v/%s", fn, r.Fs, cls))
		switch {
		case ok && !r.Qr[a]:
			rp.bad(fn, fmt.Sprintf("reports a square root (%v) of a non-residue", root), args)
		case !ok && r.Qr[a]:
			rp.bad(fn, "reports no square root although one exists", args)
		case ok:
			v := num(root)
			if root == nil || v < 0 || v >= n || r.Sq[v] != a {
				rp.bad(fn, fmt.Sprintf("= %v, whose square is not a modulo %d", root, n), args)
			}
		}
	}
	for a := int64(0); a < n; a++ {
		if len(r.Fs) == 1 && r.Fs[0] != 4 {
			A, P := bi(a), bi(n)
			k := keep(A, P)
			var root *big.Int
			var ok bool
			args := hx.M{"a": a, "p": n}
			if rp.call("PrimeSqrt", args, func() { root, ok = verifx.PrimeSqrt(A, P) }) {
				check("PrimeSqrt", a, root, ok, args)
				if n == 73 && (a == 2 || a == 5) {
					rp.res.Sample(hx.M{"call": fmt.Sprintf("PrimeSqrt(%d, 73)", a), "real_ok": ok, "real_root": fmt.Sprint(root), "tlc_root_exists": r.Qr[a]})
				}
				if !k.ok() {
					rp.bad("PrimeSqrt", "modified an operand", args)
				}
				if ok && root == A {
					rp.bad("PrimeSqrt", "returns its operand instead of a new integer", args)
				}
			}
		}
		A := bi(a)
		fs := make([]*big.Int, len(r.Fs))
		all := []*big.Int{A}
		for i, f := range r.Fs {
			fs[i] = bi(f)
			all = append(all, fs[i])
		}
		k := keep(all...)
		var root *big.Int
		var ok bool
		args := hx.M{"a": a, "factors": r.Fs}
		if rp.call("ModSqrt", args, func() { root, ok = verifx.ModSqrt(A, fs) }) {
			check("ModSqrt", a, root, ok, args)
			if !k.ok() {
				rp.bad("ModSqrt", "modified an operand", args)
			}
		}
	}
}

func (rp *replayer) crt(pa, pb int64, v [][]int64) {
	for a := int64(0); a < pa; a++ {
		for b := int64(0); b < pb; b++ {
			A, PA, Bv, PB := bi(a), bi(pa), bi(b), bi(pb)
			k := keep(A, PA, Bv, PB)
			var x *big.Int
			args := hx.M{"a": a, "pa": pa, "b": b, "pb": pb}
			if !rp.call("Crt", args, func() { x = verifx.Crt(A, PA, Bv, PB) }) {
				continue
			}
			rp.res.Eval(fmt.Sprintf("Crt/%d/%d", pa, pb))
			if num(x) != v[a][b] {
				rp.bad("Crt", fmt.Sprintf("= %v, specification says %d", x, v[a][b]), args)
			}
			if !k.ok() {
				rp.bad("Crt", "modified an operand", args)
			}
			if a == b { // the same big.Int as both residues
				S := bi(a)
				args := hx.M{"a": a, "pa": pa, "b": b, "pb": pb, "aliased": true}
				if rp.call("Crt", args, func() { x = verifx.Crt(S, PA, S, PB) }) {
					rp.res.Eval(fmt.Sprintf("Crt/%d/%d/aliased", pa, pb))
					if num(x) != v[a][b] || S.Cmp(bi(a)) != 0 {
						rp.bad("Crt", fmt.Sprintf("= %v with both residues the same big.Int, specification says %d", x, v[a][b]), args)
					}
				}
			}
		}
	}
}

func (rp *replayer) pow(m, x, y0 int64, v []int64) {
	for j, want := range v {
		y := y0 + int64(j)
		X, Y, M := bi(x), bi(y), bi(m)
		k := keep(X, Y, M)
		var r *big.Int
		var err error
		args := hx.M{"x": x, "y": y, "m": m}
		if !rp.call("ModPow", args, func() { r, err = verifx.ModPow(X, Y, M) }) {
			continue
		}
		cls := "pos"
		if y < 0 {
			cls = "neg"
			if want < 0 {
				cls = "neg-noinverse"
			}
		}
		rp.res.Eval(fmt.Sprintf("ModPow/%d/%s", m, cls))
		switch {
		case want < 0 && err == nil:
			rp.bad("ModPow", fmt.Sprintf("= %v although the base has no inverse", r), args)
		case want >= 0 && err != nil:
			rp.bad("ModPow", fmt.Sprintf("fails (%v), specification says %d", err, want), args)
		case want >= 0 && num(r) != want:
			rp.bad("ModPow", fmt.Sprintf("= %v, specification says %d", r, want), args)
		}
		if !k.ok() {
			rp.bad("ModPow", "modified an operand", args)
		}
		if x == y { // base and exponent the same big.Int
			S := bi(x)
			args := hx.M{"x": x, "y": y, "m": m, "aliased": true}
			if rp.call("ModPow", args, func() { r, err = verifx.ModPow(S, S, M) }) {
				rp.res.Eval(fmt.Sprintf("ModPow/%d/aliased", m))
				if (want < 0) != (err != nil) || (want >= 0 && num(r) != want) || S.Cmp(bi(x)) != 0 {
					rp.bad("ModPow", fmt.Sprintf("= %v, %v with base and exponent the same big.Int, specification says %d", r, err, want), args)
				}
			}
		}
	}
}

func (rp *replayer) fastmod(r *row) {
	p := bi(r.P)
	form := new(gobig.Int).Lsh(gobig.NewInt(1), uint(r.B))
	form.Sub(form, gobig.NewInt(r.C))
	if form.Cmp(p.Go()) != 0 || r.C < 1 {
		hx.Fatal("fm row: %d is not 2^%d - %d", r.P, r.B, r.C)
	}
	rp.fm.Set(p)
	for i, xv := range r.Xs {
		want := r.Rs[i]
		cls := "ge"
		if xv < 0 {
			cls = "neg"
		} else if xv < r.P {
			cls = "lt"
		} else if xv >= 1<<uint(r.B) {
			cls = "carry"
		}
		// 1. separate result, 2. result is the operand itself, 3. result holds an unrelated value
		for variant := 0; variant < 3; variant++ {
			x := bi(xv)
			ret := new(big.Int)
			switch variant {
			case 1:
				ret = x
			case 2:
				ret.SetInt64(-987654321)
			}
			var out *big.Int
			args := hx.M{"p": r.P, "b": r.B, "c": r.C, "x": xv, "variant": []string{"fresh", "aliased", "dirty"}[variant]}
			if !rp.call("FastMod.Mod", args, func() { out = rp.fm.Mod(ret, x) }) {
				continue
			}
			rp.res.Eval(fmt.Sprintf("FastMod/%d/%s/%d", r.P, cls, variant))
			if out != ret || num(ret) != want {
				rp.bad("FastMod.Mod", fmt.Sprintf("= %v, specification says %d", ret, want), args)
			}
			if r.P == 251 && xv == -1073741824 && variant == 1 {
				rp.res.Sample(hx.M{"call": "FastMod{2^8-5}.Mod(x, x), x = -2^30", "real": num(ret), "tlc_table": want})
			}
			if variant != 1 && x.Cmp(bi(xv)) != 0 {
				rp.bad("FastMod.Mod", "modified its operand", args)
			}
		}
	}
}

func (rp *replayer) safeTest(r *row) {
	for i := range r.Safe {
		n := r.N0 + int64(i)
		X := bi(n)
		var got bool
		args := hx.M{"x": n}
		if !rp.call("ProbablySafePrime", args, func() { got = safeprime.ProbablySafePrime(X, 20) }) {
			continue
		}
		cls := "no"
		if r.Safe[i] {
			cls = "safe"
		} else if r.Prime[i] {
			cls = "prime-only"
		}
		rp.res.Eval(fmt.Sprintf("ProbablySafePrime/%d/%s", r.N0, cls))
		if got != r.Safe[i] {
			rp.bad("ProbablySafePrime", fmt.Sprintf("= %v, specification says %v", got, r.Safe[i]), args)
		}
		if X.Cmp(bi(n)) != 0 {
			rp.bad("ProbablySafePrime", "modified its operand", args)
		}
	}
}

func (rp *replayer) primeInRange(r *row) {
	if len(r.Primes) == 0 {
		rp.res.Count("rpir:no-candidate-interval")
		return // no candidate of the interval is prime: the call cannot return (outside the domain)
	}
	in := map[int64]bool{}
	for _, p := range r.Primes {
		in[p] = true
	}
	rd := &detReader{r: hx.Rng(rp.seed, fmt.Sprintf("rpir/%d/%d", r.Start, r.Len)), left: 1 << 17}
	hit := map[int64]bool{}
	for i := 0; i < 24; i++ {
		var p *big.Int
		var err error
		args := hx.M{"start": r.Start, "length": r.Len}
		if !rp.call("RandomPrimeInRange", args, func() { p, err = verifx.RandomPrimeInRange(rd, uint(r.Start), uint(r.Len)) }) {
			continue
		}
		rp.res.Eval(fmt.Sprintf("RandomPrimeInRange/%d/%d", r.Start, r.Len))
		if err != nil {
			rp.bad("RandomPrimeInRange", fmt.Sprintf("found no prime in 128 KiB of randomness (%v) although the interval holds %d", err, len(r.Primes)), args)
			break
		}
		if !in[num(p)] {
			rp.bad("RandomPrimeInRange", fmt.Sprintf("= %v, which is not a prime of the interval", p), args)
		}
		hit[num(p)] = true
	}
	if len(hit) > 1 {
		rp.res.Count("rpir:intervals-with-several-distinct-results")
	}
}

func (rp *replayer) safeGen(r *row) {
	in := map[int64]bool{}
	for _, p := range r.vec() {
		in[p] = true
	}
	for i := 0; i < 6; i++ {
		var p *big.Int
		args := hx.M{"bits": r.Bits}
		if !rp.call("safeprime.Generate", args, func() { p = genSafePrime(int(r.Bits)) }) {
			continue
		}
		rp.res.Eval(fmt.Sprintf("safeprime.Generate/%d", r.Bits))
		if !in[num(p)] {
			rp.bad("safeprime.Generate", fmt.Sprintf("= %v, which is not a safe prime of %d bits", p, r.Bits), args)
		}
	}
}

func (rp *replayer) group(r *row) {
	args := hx.M{"P": r.Gp}
	if !r.Built {
		// no two different elements of order (P-1)/2 other than 1 exist (P = 5): BuildGroup must refuse - and return
		ok, g, _ := buildGroupTimed(r.Gp)
		rp.res.Eval(fmt.Sprintf("BuildGroup/%d/refuse", r.Gp))
		switch {
		case g == -1:
			rp.bad("BuildGroup", "did not return within 10 s", args)
		case ok:
			rp.bad("BuildGroup", "built a group although the subgroup of squares has no two generators", args)
		}
		return
	}
	var g zkproof.Group
	var ok bool
	if !rp.call("BuildGroup", args, func() { g, ok = zkproof.BuildGroup(bi(r.Gp)) }) {
		return
	}
	if !ok || num(g.P) != r.Gp || num(g.Order) != r.Gq || num(g.G) != r.G || num(g.H) != r.H {
		rp.bad("BuildGroup", fmt.Sprintf("= (ok %v, P %v, Order %v, G %v, H %v), specification says (%d, %d, %d, %d)", ok, g.P, g.Order, g.G, g.H, r.Gp, r.Gq, r.G, r.H), args)
		return
	}
	for bn, tab := range map[string][]int64{"g": r.Vg, "h": r.Vh} {
		for i, want := range tab {
			e := r.E0 + int64(i)
			E := bi(e)
			ret := new(big.Int)
			var rok bool
			args := hx.M{"P": r.Gp, "base": bn, "exp": e}
			if !rp.call("Group.Exp", args, func() { rok = g.Exp(ret, bn, E, nil) }) {
				continue
			}
			cls := "pos"
			if e < 0 {
				cls = "neg"
			}
			rp.res.Eval(fmt.Sprintf("Group.Exp/%d/%s/%s", r.Gp, bn, cls))
			if !rok || num(ret) != want {
				rp.bad("Group.Exp", fmt.Sprintf("= %v (%v), specification says %d", ret, rok, want), args)
			}
			if E.Cmp(bi(e)) != 0 {
				rp.bad("Group.Exp", "modified the exponent", args)
			}
			// result aliasing the exponent: the property does not ask for it (only for FastMod); observed, not judged
			S := bi(e)
			if p, _ := hx.Try(func() { g.Exp(S, bn, S, nil) }); p || num(S) != want {
				rp.res.Count("gexp:aliased-result-differs(not judged)")
			}
		}
	}
}

// ====================================================================== code -> spec

type recorder struct {
	out *bufio.Writer
	n   int
	res *hx.Result
}

func (rc *recorder) emit(m hx.M) {
	b, err := json.Marshal(m)
	if err != nil {
		hx.Fatal("marshal record: %v", err)
	}
	// an empty result list (every call of the batch failed) must reach the trace as [], not as null
	b = bytes.ReplaceAll(b, []byte(":null"), []byte(":[]"))
	rc.out.Write(b)
	rc.out.WriteByte('\n')
	rc.n++
	rc.res.Count("records:" + m["f"].(string))
}

type bounds struct {
	leg, jac, inv, sqrt, crt, pow, powExp, fm, fmDense, sq4, spt, rpirStart, spBits, group int64
}

func tierBounds(tier string) bounds {
	if tier == "thorough" {
		return bounds{leg: 1 << 12, jac: 1 << 11, inv: 1 << 10, sqrt: 1 << 12, crt: 40, pow: 48, powExp: 20, fm: 1 << 12, fmDense: 1 << 8,
			sq4: 1 << 20, spt: 1 << 16, rpirStart: 24, spBits: 28, group: 1 << 12}
	}
	return bounds{leg: 1 << 8, jac: 1 << 8, inv: 1 << 8, sqrt: 1 << 10, crt: 16, pow: 20, powExp: 12, fm: 1 << 9, fmDense: 1 << 9,
		sq4: 1 << 14, spt: 1 << 14, rpirStart: 20, spBits: 24, group: 1 << 8}
}

func isPrimeBig(n int64) bool { return gobig.NewInt(n).ProbablyPrime(20) } // domain enumeration only; the specification re-checks

// factorLists returns the lists of pairwise coprime factors (odd primes, optionally 4) with product n, ascending
// and descending; nil when n has no such factorisation.
func factorLists(n int64) [][]int64 {
	var fs []int64
	m := n
	if m%4 == 0 {
		fs = append(fs, 4)
		m /= 4
	}
	if m%2 == 0 {
		return nil
	}
	for d := int64(3); d*d <= m; d += 2 {
		if m%d == 0 {
			fs = append(fs, d)
			m /= d
			if m%d == 0 {
				return nil
			}
		}
	}
	if m > 1 {
		fs = append(fs, m)
	}
	if len(fs) == 0 {
		return nil
	}
	out := [][]int64{fs}
	if len(fs) > 1 {
		rv := make([]int64, len(fs))
		for i, f := range fs {
			rv[len(fs)-1-i] = f
		}
		out = append(out, rv)
	}
	return out
}

func record(a *hx.Args, res *hx.Result) {
	if len(a.Rest) < 1 {
		hx.Fatal("usage: nt record [flags] <trace.ndjson>")
	}
	f, err := os.Create(a.Rest[0])
	if err != nil {
		hx.Fatal("create trace: %v", err)
	}
	defer f.Close()
	rc := &recorder{out: bufio.NewWriterSize(f, 1<<20), res: res}
	defer rc.out.Flush()
	b := tierBounds(a.Tier)
	rng := hx.Rng(a.Seed, "nt-record")

	// a panic inside a helper is an outcome: the record carries panic=true and the specification rejects it
	try := func(f func()) bool { p, _ := hx.Try(f); return p }
	// batches are computed on all cores and written in their natural order
	parallelEmit := func(n int, f func(i int) []hx.M) {
		outs := make([][]hx.M, n)
		hx.Parallel(n, func(i int) { outs[i] = f(i) })
		for _, ms := range outs {
			for _, m := range ms {
				rc.emit(m)
			}
		}
	}
	secs := hx.M{}
	t0, cur := time.Now(), "setup"
	lap := func(next string) {
		secs[cur] = fmt.Sprintf("%.1fs", time.Since(t0).Seconds())
		t0, cur = time.Now(), next
	}

	lap("symbols")
	// ---- LegendreSymbol on odd primes (Legendre) and on odd composites (Jacobi), a from -n to 2n
	parallelEmit(int(max64(b.leg, b.jac)/2), func(i int) (ms []hx.M) {
		n := int64(2*i + 3)
		prime := isPrimeBig(n)
		if n >= max64(b.leg, b.jac) || (prime && n >= b.leg) || (!prime && n >= b.jac) {
			return nil
		}
		var r []int64
		kept, panicked := true, false
		for x := -n; x <= 2*n; x++ {
			A, N := bi(x), bi(n)
			k := keep(A, N)
			var got int
			panicked = try(func() { got = verifx.LegendreSymbol(A, N) }) || panicked
			r = append(r, int64(got))
			kept = kept && k.ok()
			res.Eval("")
		}
		fn, key := "jac", "n"
		if prime {
			fn, key = "leg", "p"
		}
		ms = append(ms, hx.M{"f": fn, key: n, "a0": -n, "r": r, "kept": kept, "panic": panicked, "al": 0})
		N := bi(n)
		var got int
		panicked = try(func() { got = verifx.LegendreSymbol(N, N) })
		ms = append(ms, hx.M{"f": fn, key: n, "a0": n, "r": []int64{int64(got)}, "kept": N.Cmp(bi(n)) == 0, "panic": panicked, "al": 1})
		res.Eval(fmt.Sprintf("rec/%s/%d", fn, n))
		return ms
	})

	lap("inverse")
	// ---- ModInverse, all a below every modulus
	for n := int64(2); n < b.inv; n++ {
		var oks []bool
		var xs []int64
		kept, panicked := true, false
		for x := int64(0); x < n; x++ {
			A, N := bi(x), bi(n)
			k := keep(A, N)
			var inv *big.Int
			var ok bool
			panicked = try(func() { inv, ok = verifx.ModInverse(A, N) }) || panicked
			oks = append(oks, ok)
			if ok {
				xs = append(xs, num(inv))
			} else {
				xs = append(xs, 0)
			}
			kept = kept && k.ok()
			res.Eval("")
		}
		rc.emit(hx.M{"f": "inv", "n": n, "a0": 0, "ok": oks, "x": xs, "kept": kept, "panic": panicked})
		res.Eval(fmt.Sprintf("rec/inv/%d", n))
	}

	lap("modpow")
	// ---- ModPow with signed exponents
	for m := int64(2); m <= b.pow; m++ {
		for x := int64(-1); x <= m; x++ {
			var errs []bool
			var rs []int64
			kept, panicked := true, false
			for y := -b.powExp; y <= b.powExp; y++ {
				X, Y, M := bi(x), bi(y), bi(m)
				if x == y {
					Y = X // base and exponent the same big.Int
				}
				k := keep(X, Y, M)
				var r *big.Int
				var err error
				panicked = try(func() { r, err = verifx.ModPow(X, Y, M) }) || panicked
				errs = append(errs, err != nil)
				if err == nil {
					rs = append(rs, num(r))
				} else {
					rs = append(rs, 0)
				}
				kept = kept && k.ok()
				res.Eval("")
			}
			rc.emit(hx.M{"f": "pow", "m": m, "x": x, "y0": -b.powExp, "err": errs, "r": rs, "kept": kept, "panic": panicked})
		}
		res.Eval(fmt.Sprintf("rec/pow/%d", m))
	}

	lap("crt")
	// ---- Crt, all residues of all coprime pairs of moduli
	for pa := int64(2); pa <= b.crt; pa++ {
		for pb := int64(2); pb <= b.crt; pb++ {
			if new(gobig.Int).GCD(nil, nil, gobig.NewInt(pa), gobig.NewInt(pb)).Int64() != 1 {
				continue
			}
			var xs [][]int64
			kept, panicked := true, false
			for x := int64(0); x < pa; x++ {
				var rowv []int64
				for y := int64(0); y < pb; y++ {
					A, PA, Bv, PB := bi(x), bi(pa), bi(y), bi(pb)
					if x == y {
						Bv = A // both residues the same big.Int
					}
					k := keep(A, PA, Bv, PB)
					var r *big.Int
					panicked = try(func() { r = verifx.Crt(A, PA, Bv, PB) }) || panicked
					rowv = append(rowv, num(r))
					kept = kept && k.ok()
					res.Eval("")
				}
				xs = append(xs, rowv)
			}
			rc.emit(hx.M{"f": "crt", "pa": pa, "pb": pb, "x": xs, "kept": kept, "panic": panicked})
			res.Eval(fmt.Sprintf("rec/crt/%d/%d", pa, pb))
		}
	}

	lap("sqrt")
	// ---- PrimeSqrt (odd primes) and ModSqrt (lists of coprime factors: odd primes and 4, both orders)
	parallelEmit(int(b.sqrt), func(i int) (ms []hx.M) {
		n := int64(i)
		if n < 3 {
			return nil
		}
		lists := factorLists(n)
		for li, fsv := range lists {
			vias := []string{"ModSqrt"}
			if li == 0 && len(fsv) == 1 && fsv[0] != 4 {
				vias = append(vias, "PrimeSqrt")
			}
			for _, via := range vias {
				var oks []bool
				var rs []int64
				kept, panicked := true, false
				for x := int64(0); x < n; x++ {
					A := bi(x)
					ops := []*big.Int{A}
					fs := make([]*big.Int, len(fsv))
					for i, fv := range fsv {
						fs[i] = bi(fv)
						ops = append(ops, fs[i])
					}
					k := keep(ops...)
					var r *big.Int
					var ok bool
					if via == "PrimeSqrt" {
						panicked = try(func() { r, ok = verifx.PrimeSqrt(A, fs[0]) }) || panicked
					} else {
						panicked = try(func() { r, ok = verifx.ModSqrt(A, fs) }) || panicked
					}
					oks = append(oks, ok)
					if ok {
						rs = append(rs, num(r))
					} else {
						rs = append(rs, 0)
					}
					kept = kept && k.ok()
					res.Eval("")
				}
				ms = append(ms, hx.M{"f": "sqrt", "via": via, "fs": fsv, "n": n, "a0": 0, "ok": oks, "r": rs, "kept": kept, "panic": panicked})
				res.Eval(fmt.Sprintf("rec/sqrt/%s/%v", via, fsv))
			}
		}
		return ms
	})

	lap("foursquares")
	// ---- SumFourSquares, every n below the bound, in blocks of 256
	nblocks := int((b.sq4 + 255) / 256)
	blocks := make([]hx.M, nblocks)
	hx.Parallel(nblocks, func(bi_ int) {
		n0 := int64(bi_) * 256
		var vs [][]int64
		kept, panicked := true, false
		for n := n0; n < n0+256 && n < b.sq4; n++ {
			N := bi(n)
			k := keep(N)
			var x, y, z, w *big.Int
			panicked = try(func() { x, y, z, w = verifx.SumFourSquares(N) }) || panicked
			vs = append(vs, []int64{num(x), num(y), num(z), num(w)})
			kept = kept && k.ok()
			res.Eval("")
		}
		blocks[bi_] = hx.M{"f": "sq4", "n0": n0, "v": vs, "kept": kept, "panic": panicked}
	})
	for i, m := range blocks {
		rc.emit(m)
		res.Eval(fmt.Sprintf("rec/sq4/%d", i*256))
	}

	lap("fastmod")
	// ---- FastMod: every modulus below 2^b, operands negative / small / huge, result separate, aliased, dirty
	var fm verifx.FastMod
	for p := int64(1); p < b.fm; p++ {
		xs := fmOperands(p, b.fmDense, rng)
		fm.Set(bi(p))
		for variant := 0; variant < 3; variant++ {
			var rs []int64
			kept, panicked := true, false
			for _, xv := range xs {
				x := bi(xv)
				ret := new(big.Int)
				switch variant {
				case 1:
					ret = x
				case 2:
					ret.SetInt64(123456789)
				}
				var out *big.Int
				panicked = try(func() { out = fm.Mod(ret, x) }) || panicked
				if out != ret {
					rs = append(rs, sentinel) // the returned pointer must be the result argument
				} else {
					rs = append(rs, num(ret))
				}
				if variant != 1 {
					kept = kept && x.Cmp(bi(xv)) == 0
				}
				res.Eval("")
			}
			rc.emit(hx.M{"f": "fm", "p": p, "al": variant, "xs": xs, "rs": rs, "kept": kept, "panic": panicked})
		}
		res.Eval(fmt.Sprintf("rec/fm/%d", p))
	}

	lap("safetest")
	// ---- ProbablySafePrime on every number below the bound
	for n0 := int64(0); n0 < b.spt; n0 += 256 {
		var rs []bool
		panicked := false
		for n := n0; n < n0+256; n++ {
			X := bi(n)
			var got bool
			panicked = try(func() { got = safeprime.ProbablySafePrime(X, 20) }) || panicked
			rs = append(rs, got)
			res.Eval("")
		}
		rc.emit(hx.M{"f": "spt", "n0": n0, "r": rs, "kept": true, "panic": panicked})
		res.Eval(fmt.Sprintf("rec/spt/%d", n0))
	}

	lap("primeinrange")
	// ---- RandomPrimeInRange on every interval [2^start, 2^start + 2^len] that holds a candidate prime
	for start := int64(2); start <= b.rpirStart; start++ {
		for ln := int64(1); ln <= start+1 && ln <= 22; ln++ {
			if !intervalHasPrime(start, ln) {
				continue
			}
			rd := &detReader{r: hx.Rng(a.Seed, fmt.Sprintf("rec-rpir/%d/%d", start, ln)), left: 1 << 17}
			var ps []int64
			panicked, failed := false, false
			for i := 0; i < 8; i++ {
				var p *big.Int
				var err error
				panicked = try(func() { p, err = verifx.RandomPrimeInRange(rd, uint(start), uint(ln)) }) || panicked
				if err != nil {
					failed = true
					break
				}
				ps = append(ps, num(p))
				res.Eval("")
			}
			rc.emit(hx.M{"f": "rpir", "start": start, "len": ln, "p": ps, "failed": failed, "kept": true, "panic": panicked})
			res.Eval(fmt.Sprintf("rec/rpir/%d/%d", start, ln))
		}
	}

	lap("safegen")
	// ---- safeprime.Generate from 8 bits upwards (N3: sizes 4 and 5 cannot terminate)
	for bits := int64(8); bits <= b.spBits; bits++ {
		var ps []int64
		panicked := false
		for i := 0; i < 4; i++ {
			var p *big.Int
			panicked = try(func() { p = genSafePrime(int(bits)) }) || panicked
			ps = append(ps, num(p))
			res.Eval("")
		}
		rc.emit(hx.M{"f": "spgen", "bits": bits, "p": ps, "kept": true, "panic": panicked})
		res.Eval(fmt.Sprintf("rec/spgen/%d", bits))
	}

	lap("groupexp")
	// ---- zkproof.Group.Exp on the groups of all small safe primes, exponents from -2q to 2q (the domain is -q < e < q)
	below, wrongBelow := 0, 0
	for P := int64(5); P < b.group; P += 2 {
		if !(isPrimeBig(P) && isPrimeBig((P-1)/2)) {
			continue
		}
		if built, _, _ := buildGroupTimed(P); !built { // (timed: the call did not return for P = 5 once, D57)
			rc.emit(hx.M{"f": "gexp", "gp": P, "gq": (P - 1) / 2, "built": false, "g": 0, "base": "g", "e0": 0, "st": []int64{}, "r": []int64{}, "kept": true, "panic": false})
			continue
		}
		g, ok := zkproof.BuildGroup(bi(P))
		if !ok {
			rc.emit(hx.M{"f": "gexp", "gp": P, "gq": (P - 1) / 2, "built": false, "g": 0, "base": "g", "e0": 0, "st": []int64{}, "r": []int64{}, "kept": true, "panic": false})
			continue
		}
		q := (P - 1) / 2
		for _, bn := range []string{"g", "h"} {
			base := g.Base(bn)
			if base.Sign() == 0 {
				res.Count("gexp:degenerate-base-skipped")
				continue
			}
			var st, rs []int64
			kept := true
			for e := -2 * q; e <= 2*q; e++ {
				E := bi(e)
				ret := new(big.Int)
				var rok bool
				p := try(func() { rok = g.Exp(ret, bn, E, nil) })
				switch {
				case p:
					st, rs = append(st, 1), append(rs, 0)
				case !rok:
					st, rs = append(st, 2), append(rs, 0)
				default:
					st, rs = append(st, 0), append(rs, num(ret))
				}
				kept = kept && E.Cmp(bi(e)) == 0
				if e <= -q && !p {
					below++
					want := new(gobig.Int).Exp(base.Go(), new(gobig.Int).Mod(gobig.NewInt(e), gobig.NewInt(q)), gobig.NewInt(P))
					if ret.Go().Cmp(want) != 0 {
						wrongBelow++
					}
				}
				res.Eval("")
			}
			rc.emit(hx.M{"f": "gexp", "gp": P, "gq": num(g.Order), "built": true, "g": num(base), "base": bn, "e0": -2 * q, "st": st, "r": rs, "kept": kept, "panic": false})
			res.Eval(fmt.Sprintf("rec/gexp/%d/%s", P, bn))
		}
	}
	// outside the domain, not judged: exponents <= -Order are folded once and then used although still negative
	res.Notes["group_exp_exponent_at_or_below_minus_order"] = fmt.Sprintf("%d calls returned without panic, %d of them with a value different from base^(e mod Order) (outside the domain -Order < e < Order; not judged)", below, wrongBelow)
	lap("end")
	res.Notes["section_seconds"] = secs
	res.Notes["records"] = rc.n
	res.Sample(hx.M{"direction": "code->spec", "records": rc.n, "note": "one record = one modulus with the real results on its whole operand range"})
}

func max64(a, b int64) int64 {
	if a > b {
		return a
	}
	return b
}

func intervalHasPrime(start, ln int64) bool {
	lo := int64(1) << uint(start)
	for off := int64(1); off < int64(1)<<uint(ln); off += 2 {
		if isPrimeBig(lo + off) {
			return true
		}
	}
	return false
}

// fmOperands: dense around zero for small moduli, neighbourhoods of the multiples of p and of the powers of two,
// all powers of two up to 2^30 with both signs, seeded random values below 2^30.
func fmOperands(p, dense int64, rng *mrand.Rand) []int64 {
	var xs []int64
	near := func(x int64) {
		for d := int64(-2); d <= 2; d++ {
			if v := x + d; v <= 1<<30 && v >= -(1<<30) {
				xs = append(xs, v)
			}
		}
	}
	bl := int64(gobig.NewInt(p).BitLen())
	if p <= dense {
		for x := -2*p - 2; x <= 3*p+2; x++ {
			xs = append(xs, x)
		}
	} else {
		near(-p)
		near(0)
		near(p)
		near(2 * p)
		near(1 << uint(bl))
	}
	if 2*bl <= 29 {
		near(1 << uint(2*bl))
	}
	for j := uint(0); j <= 30; j++ {
		xs = append(xs, 1<<j, 1<<j-1, -(1 << j))
	}
	near(((1 << 30) / p) * p)
	near(((1 << 20) / p) * p)
	near(-((1 << 30) / p) * p)
	for i := 0; i < 12; i++ {
		xs = append(xs, rng.Int63n(1<<30), -rng.Int63n(1<<30))
	}
	return xs
}

// ====================================================================== large operands (math/big, not TLC)

func large(a *hx.Args, res *hx.Result) {
	rounds := 400
	if a.Tier == "thorough" {
		rounds = 3000
	}
	if a.N > 0 {
		rounds = a.N
	}
	sizes := []int{64, 65, 127, 128, 256, 521, 1024, 2048, 4096}
	one := gobig.NewInt(1)
	bad := func(fn, what string, detail hx.M) {
		res.Violation("large-operand:"+fn, fn+": "+what, detail)
	}
	did := func(fn string) { res.Eval(""); res.Count("large:" + fn) }
	str := func(x *gobig.Int) string {
		if x == nil {
			return "nil"
		}
		return x.Text(16)
	}
	C := big.Convert
	cp := func(x *gobig.Int) *big.Int { return C(new(gobig.Int).Set(x)) }

	hx.Parallel(rounds, func(round int) {
		rng := hx.Rng(a.Seed, fmt.Sprintf("nt-large/%d", round)) // every round has its own stream: the schedule does not matter
		rnd := func(bits int) *gobig.Int {
			return new(gobig.Int).Rand(rng, new(gobig.Int).Lsh(gobig.NewInt(1), uint(bits)))
		}
		rndPrime := func(bits int, cond func(*gobig.Int) bool) *gobig.Int {
			for {
				p := rnd(bits)
				p.SetBit(p, bits-1, 1).SetBit(p, 0, 1)
				if p.ProbablyPrime(20) && (cond == nil || cond(p)) {
					return p
				}
			}
		}
		bits := sizes[round%len(sizes)]
		if round >= len(sizes) && round%3 == 0 {
			bits = 33 + rng.Intn(4064)
		}
		// ---- ModInverse against a*x = 1 (mod n) and the stdlib
		{
			n := rnd(bits)
			n.SetBit(n, bits-1, 1)
			x := new(gobig.Int).Mod(rnd(bits), n)
			if round%4 == 0 { // force a common factor
				f := gobig.NewInt(int64(3 + 2*rng.Intn(50)))
				n.Mul(n, f)
				x.Mul(x, f).Mod(x, n)
			}
			var inv *big.Int
			var ok bool
			p, msg := hx.Try(func() { inv, ok = verifx.ModInverse(cp(x), cp(n)) })
			did("ModInverse")
			g := new(gobig.Int).GCD(nil, nil, x, n)
			switch {
			case p:
				bad("ModInverse", "panics: "+msg, hx.M{"a": str(x), "n": str(n)})
			case ok != (g.Cmp(one) == 0):
				bad("ModInverse", fmt.Sprintf("existence reported %v, gcd = %s", ok, str(g)), hx.M{"a": str(x), "n": str(n)})
			case ok:
				t := new(gobig.Int).Mul(x, inv.Go())
				if t.Mod(t, n).Cmp(one) != 0 || inv.Sign() <= 0 || inv.Go().Cmp(n) >= 0 {
					bad("ModInverse", "a*x != 1 (mod n) or x outside (0, n)", hx.M{"a": str(x), "n": str(n), "x": str(inv.Go())})
				}
			}
		}
		// ---- ModPow with signed exponents against Exp / ModInverse of the stdlib and the relation r * x^|y| = 1
		{
			m := rnd(bits)
			m.SetBit(m, bits-1, 1)
			x := rnd(bits + 8)
			y := rnd(1 + rng.Intn(bits))
			if round%2 == 0 {
				y.Neg(y)
			}
			if round%6 == 0 {
				f := gobig.NewInt(int64(3 + 2*rng.Intn(50)))
				m.Mul(m, f)
				x.Mul(x, f)
			}
			var r *big.Int
			var err error
			p, msg := hx.Try(func() { r, err = verifx.ModPow(cp(x), cp(y), cp(m)) })
			did("ModPow")
			d := hx.M{"x": str(x), "y": str(y), "m": str(m)}
			coprime := new(gobig.Int).GCD(nil, nil, new(gobig.Int).Mod(x, m), m).Cmp(one) == 0
			switch {
			case p:
				bad("ModPow", "panics: "+msg, d)
			case y.Sign() >= 0:
				if err != nil || r.Go().Cmp(new(gobig.Int).Exp(x, y, m)) != 0 {
					bad("ModPow", "differs from x^y mod m", d)
				}
			case !coprime:
				if err == nil {
					bad("ModPow", "negative exponent of a base without inverse did not fail", d)
				}
			default:
				if err != nil {
					bad("ModPow", "failed although the base is invertible: "+err.Error(), d)
				} else {
					t := new(gobig.Int).Exp(x, new(gobig.Int).Neg(y), m)
					t.Mul(t, r.Go()).Mod(t, m)
					if t.Cmp(one) != 0 || r.Sign() < 0 || r.Go().Cmp(m) >= 0 {
						bad("ModPow", "r * x^|y| != 1 (mod m)", d)
					}
				}
			}
		}
		// ---- LegendreSymbol against Euler's criterion (prime) and the stdlib's Jacobi (odd composite)
		if bits <= 1024 || round%5 == 0 {
			pb := bits
			if pb > 1024 {
				pb = 1024
			}
			p := rndPrime(pb, nil)
			for i := 0; i < 4; i++ {
				x := rnd(pb + 3)
				if i == 1 {
					x.Neg(x)
				}
				if i == 2 {
					x.Mul(p, gobig.NewInt(int64(rng.Intn(5))))
				}
				var got int
				pn, msg := hx.Try(func() { got = verifx.LegendreSymbol(cp(x), cp(p)) })
				did("LegendreSymbol")
				e := new(gobig.Int).Exp(new(gobig.Int).Mod(x, p), new(gobig.Int).Rsh(p, 1), p)
				want := 0
				if e.Cmp(one) == 0 {
					want = 1
				} else if e.Sign() != 0 {
					want = -1
				}
				if pn || got != want || got != gobig.Jacobi(x, p) {
					bad("LegendreSymbol", fmt.Sprintf("= %d (%s), Euler's criterion gives %d", got, msg, want), hx.M{"a": str(x), "p": str(p)})
				}
			}
			n := rnd(bits)
			n.SetBit(n, 0, 1).SetBit(n, bits-1, 1)
			x := rnd(bits + 3)
			var got int
			pn, _ := hx.Try(func() { got = verifx.LegendreSymbol(cp(x), cp(n)) })
			did("LegendreSymbol(Jacobi)")
			if pn || got != gobig.Jacobi(x, n) {
				bad("LegendreSymbol", fmt.Sprintf("= %d on an odd modulus, the Jacobi symbol is %d", got, gobig.Jacobi(x, n)), hx.M{"a": str(x), "n": str(n)})
			}
		}
		// ---- Crt
		{
			hb := bits/2 + 1
			pa, pb := rnd(hb), rnd(hb)
			pa.SetBit(pa, hb-1, 1)
			pb.SetBit(pb, hb-1, 1)
			if new(gobig.Int).GCD(nil, nil, pa, pb).Cmp(one) == 0 {
				x, y := new(gobig.Int).Mod(rnd(hb), pa), new(gobig.Int).Mod(rnd(hb), pb)
				var r *big.Int
				pn, msg := hx.Try(func() { r = verifx.Crt(cp(x), cp(pa), cp(y), cp(pb)) })
				did("Crt")
				d := hx.M{"a": str(x), "pa": str(pa), "b": str(y), "pb": str(pb)}
				if pn {
					bad("Crt", "panics: "+msg, d)
				} else {
					n := new(gobig.Int).Mul(pa, pb)
					if r.Sign() < 0 || r.Go().Cmp(n) >= 0 || new(gobig.Int).Mod(r.Go(), pa).Cmp(x) != 0 || new(gobig.Int).Mod(r.Go(), pb).Cmp(y) != 0 {
						bad("Crt", "result does not have the two residues or is not below pa*pb", d)
					}
				}
			}
		}
		// ---- PrimeSqrt (every residue class of p modulo 8) and ModSqrt with factors 4, p, q
		if bits <= 1024 || round%5 == 0 {
			pb := bits
			if pb > 1024 {
				pb = 1024
			}
			class := []int64{1, 3, 5, 7}[round%4]
			p := rndPrime(pb, func(p *gobig.Int) bool { return new(gobig.Int).And(p, gobig.NewInt(7)).Int64() == class })
			q := rndPrime(pb/2+2, func(q *gobig.Int) bool { return q.Cmp(p) != 0 })
			for i := 0; i < 3; i++ {
				x := new(gobig.Int).Mod(rnd(pb+2), p)
				if i == 0 {
					x.Mul(x, x).Mod(x, p)
				}
				var r *big.Int
				var ok bool
				pn, msg := hx.Try(func() { r, ok = verifx.PrimeSqrt(cp(x), cp(p)) })
				did(fmt.Sprintf("PrimeSqrt(p=%d mod 8)", class))
				d := hx.M{"a": str(x), "p": str(p)}
				isQR := x.Sign() == 0 || gobig.Jacobi(x, p) == 1
				switch {
				case pn:
					bad("PrimeSqrt", "panics: "+msg, d)
				case ok != isQR:
					bad("PrimeSqrt", fmt.Sprintf("existence reported %v, residue: %v", ok, isQR), d)
				case ok:
					t := new(gobig.Int).Mul(r.Go(), r.Go())
					if t.Mod(t, p).Cmp(x) != 0 {
						bad("PrimeSqrt", "r*r != a (mod p)", d)
					}
				}
			}
			fsets := [][]*gobig.Int{{p, q}, {gobig.NewInt(4), p, q}, {q, gobig.NewInt(4), p}}
			for i, fs := range fsets {
				n := gobig.NewInt(1)
				var gfs []*big.Int
				for _, f := range fs {
					n.Mul(n, f)
					gfs = append(gfs, cp(f))
				}
				x := new(gobig.Int).Mod(rnd(n.BitLen()+2), n)
				if (round+i)%2 == 0 {
					x.Mul(x, x).Mod(x, n)
				}
				var r *big.Int
				var ok bool
				pn, msg := hx.Try(func() { r, ok = verifx.ModSqrt(cp(x), gfs) })
				did("ModSqrt")
				d := hx.M{"a": str(x), "n": str(n), "factors": len(fs)}
				isQR := true
				for _, f := range fs {
					xm := new(gobig.Int).Mod(x, f)
					if f.Cmp(gobig.NewInt(4)) == 0 {
						isQR = isQR && xm.Int64() < 2
					} else {
						isQR = isQR && (xm.Sign() == 0 || gobig.Jacobi(xm, f) == 1)
					}
				}
				switch {
				case pn:
					bad("ModSqrt", "panics: "+msg, d)
				case ok != isQR:
					bad("ModSqrt", fmt.Sprintf("existence reported %v, residue modulo every factor: %v", ok, isQR), d)
				case ok:
					t := new(gobig.Int).Mul(r.Go(), r.Go())
					if t.Mod(t, n).Cmp(x) != 0 {
						bad("ModSqrt", "r*r != a (mod n)", d)
					}
				}
			}
		}
		// ---- SumFourSquares (up to 768 bits quick / 1536 bits thorough: the search needs a prime of that size)
		{
			fb := bits
			capb := 768
			if a.Tier == "thorough" {
				capb = 1536
			}
			if fb > capb {
				fb = capb
			}
			n := rnd(fb)
			switch round % 4 {
			case 1:
				n.Lsh(n, uint(2*rng.Intn(20))) // multiples of 4^k
			case 2:
				n.SetBit(n, 0, 0).SetBit(n, 1, 1) // 2 mod 4
			}
			var x, y, z, w *big.Int
			pn, msg := hx.Try(func() { x, y, z, w = verifx.SumFourSquares(cp(n)) })
			did("SumFourSquares")
			if pn {
				bad("SumFourSquares", "panics: "+msg, hx.M{"n": str(n)})
			} else {
				s := new(gobig.Int)
				for _, v := range []*big.Int{x, y, z, w} {
					s.Add(s, new(gobig.Int).Mul(v.Go(), v.Go()))
				}
				if s.Cmp(n) != 0 {
					bad("SumFourSquares", "squares do not add up to n", hx.M{"n": str(n), "x": str(x.Go()), "y": str(y.Go()), "z": str(z.Go()), "w": str(w.Go())})
				}
			}
		}
		// ---- FastMod: p = 2^b - c, c below 2^59 (fast path) or large (fallback), operands up to twice the size and negative
		{
			c := rnd(1 + rng.Intn(59))
			if round%5 == 4 {
				c = rnd(61 + rng.Intn(bits/2+1))
			}
			c.SetBit(c, 0, 1)
			p := new(gobig.Int).Lsh(one, uint(bits+61))
			p.Sub(p, c)
			var fm verifx.FastMod
			fm.Set(C(new(gobig.Int).Set(p)))
			for i := 0; i < 8; i++ {
				x := rnd(rng.Intn(2*(bits+61)) + 1)
				switch i {
				case 0:
					x.Neg(x)
				case 1:
					x.Mul(p, gobig.NewInt(int64(rng.Intn(4))))
				case 2:
					x.Sub(p, one)
				case 3:
					x.Lsh(one, uint(bits+61))
				}
				want := new(gobig.Int).Mod(x, p)
				xc := cp(x)
				ret := new(big.Int)
				if i%2 == 1 {
					ret = xc // aliased
				}
				var out *big.Int
				pn, msg := hx.Try(func() { out = fm.Mod(ret, xc) })
				did("FastMod")
				if pn || out != ret || ret.Go().Cmp(want) != 0 || (i%2 == 0 && xc.Go().Cmp(x) != 0) {
					bad("FastMod.Mod", "differs from x mod p "+msg, hx.M{"p": str(p), "x": str(x), "aliased": i%2 == 1, "got": str(ret.Go())})
				}
			}
		}
		// ---- RandomPrimeInRange
		if bits <= 1024 {
			start := uint(bits)
			ln := uint(1 + rng.Intn(bits))
			if ln < 12 {
				ln = 12 // enough candidates for a prime to exist with overwhelming probability
			}
			rd := &detReader{r: rng, left: 20000 * int((ln+7)/8)} // 20,000 candidates: a prime is missed with probability < e^-50
			var p *big.Int
			var err error
			pn, msg := hx.Try(func() { p, err = verifx.RandomPrimeInRange(rd, start, ln) })
			did("RandomPrimeInRange")
			lo := new(gobig.Int).Lsh(one, start)
			hi := new(gobig.Int).Add(lo, new(gobig.Int).Lsh(one, ln))
			if pn || err != nil || !p.Go().ProbablyPrime(30) || p.Go().Cmp(lo) < 0 || p.Go().Cmp(hi) > 0 {
				bad("RandomPrimeInRange", fmt.Sprintf("not a prime of the interval (%v %s)", err, msg), hx.M{"start": start, "length": ln, "p": fmt.Sprint(p)})
			}
		}
		// ---- safeprime.Generate / ProbablySafePrime, Group.Exp on the group of the generated prime
		if round%4 == 0 {
			sb := []int{32, 48, 64, 96, 128, 160}[(round/4)%6]
			sp := genSafePrime(sb)
			did("safeprime.Generate")
			half := new(gobig.Int).Rsh(sp.Go(), 1)
			if sp.BitLen() != sb || !sp.Go().ProbablyPrime(30) || !half.ProbablyPrime(30) {
				bad("safeprime.Generate", "not a safe prime of the requested size", hx.M{"bits": sb, "p": str(sp.Go())})
			}
			for _, cand := range []*gobig.Int{sp.Go(), half, new(gobig.Int).Add(sp.Go(), gobig.NewInt(2)), rndPrime(sb, nil)} {
				want := cand.ProbablyPrime(30) && new(gobig.Int).Rsh(cand, 1).ProbablyPrime(30) && cand.Cmp(gobig.NewInt(2)) > 0
				got := safeprime.ProbablySafePrime(cp(cand), 20)
				did("ProbablySafePrime")
				if got != want {
					bad("ProbablySafePrime", fmt.Sprintf("= %v, expected %v", got, want), hx.M{"x": str(cand)})
				}
			}
			g, ok := zkproof.BuildGroup(sp)
			if !ok {
				bad("BuildGroup", "refuses a safe prime", hx.M{"p": str(sp.Go())})
			} else {
				q := g.Order.Go()
				for i := 0; i < 6; i++ {
					e := new(gobig.Int).Mod(rnd(sb+3), q)
					if i%2 == 1 {
						e.Neg(e)
					}
					if i == 4 {
						e.Sub(q, one)
					}
					if i == 5 {
						e.Sub(one, q)
					}
					for _, bn := range []string{"g", "h"} {
						ret := new(big.Int)
						var rok bool
						pn, msg := hx.Try(func() { rok = g.Exp(ret, bn, cp(e), nil) })
						did("Group.Exp")
						want := new(gobig.Int).Exp(g.Base(bn).Go(), new(gobig.Int).Mod(e, q), sp.Go())
						if pn || !rok || ret.Go().Cmp(want) != 0 {
							bad("Group.Exp", "differs from base^(e mod order) "+msg, hx.M{"p": str(sp.Go()), "base": bn, "e": str(e)})
						}
					}
				}
			}
		}
	})
	res.Notes["large_operand_relations"] = "evaluated with math/big in the harness, not by TLC (weaker binding); operand sizes 64..4096 bits, seed-determined"
	res.Sample(hx.M{"direction": "large operands", "rounds": rounds})
}
