// Command disc binds Disclosure.tla to the real disclosure-proof code (C01, C04).
//
//	disc cheat  --in cases.ndjson   C01: a cheating prover written here with math/big assembles each abstract proof for real
//	disc sizes                      C01: exact response-size boundaries through ProofD.VerifyWithChallenge
//	disc honest --in cases.ndjson   C04: the library's own prover for every (credential, disclosure set)
package main

import (
	"bytes"
	crand "crypto/rand"
	"crypto/sha256"
	"encoding/json"
	"fmt"
	gobig "math/big"
	mrand "math/rand"
	"os"
	"sort"
	"strconv"
	"sync"

	"verifharness/hx"

	"github.com/privacybydesign/gabi"
	"github.com/privacybydesign/gabi/big"
	"github.com/privacybydesign/gabi/gabikeys"
	"github.com/privacybydesign/gabi/revocation"
	"github.com/privacybydesign/gabi/verifx"
)

type aHid struct {
	On  bool   `json:"on"`
	S   int    `json:"s"`
	Rc  string `json:"rc"`
	Tag string `json:"tag"`
}
type aCase struct {
	M      map[string]int  `json:"m"`
	Disc   map[string]int  `json:"disc"`
	Hid    map[string]aHid `json:"hid"`
	Ecoef  string          `json:"ecoef"`
	Vcoef  string          `json:"vcoef"`
	Erc    string          `json:"erc"`
	Sess   string          `json:"sess"`
	Ndev   int             `json:"ndev"`
	Verify bool            `json:"verify"`
	Eq     bool            `json:"eq"`
	Sizes  bool            `json:"sizes"`
	Keyset bool            `json:"keyset"`
}

func main() {
	if len(os.Args) < 2 {
		hx.Fatal("usage: disc cheat|sizes|honest ...")
	}
	cmd := os.Args[1]
	os.Args = append(os.Args[:1], os.Args[2:]...)
	a := hx.ParseArgs()
	res := hx.NewResult()
	switch cmd {
	case "cheat":
		cheat(a, res)
	case "sizes":
		sizes(a, res)
	case "honest":
		honest(a, res)
	case "builder":
		builder(a, res)
	default:
		hx.Fatal("unknown subcommand %s", cmd)
	}
	res.Write(a.Out)
}

// ---------------------------------------------------------------- shared

var one = gobig.NewInt(1)

func pow2(n uint) *gobig.Int { return new(gobig.Int).Lsh(one, n) }

func randBits(rng *mrand.Rand, bits uint) *gobig.Int {
	b := make([]byte, (bits+7)/8)
	rng.Read(b)
	x := new(gobig.Int).SetBytes(b)
	return x.Rsh(x, uint(len(b))*8-bits)
}

// rep is the scheme's message representative: values longer than Lm bits are hashed (own sha256).
func rep(pk *gabikeys.PublicKey, x *gobig.Int) *gobig.Int {
	if x.BitLen() > int(pk.Params.Lm) {
		h := sha256.Sum256(x.Bytes())
		return new(gobig.Int).SetBytes(h[:])
	}
	return x
}

func modexp(base, e, n *gobig.Int) *gobig.Int {
	if e.Sign() >= 0 {
		return new(gobig.Int).Exp(base, e, n)
	}
	inv := new(gobig.Int).ModInverse(base, n)
	if inv == nil {
		hx.Fatal("base not invertible")
	}
	return new(gobig.Int).Exp(inv, new(gobig.Int).Neg(e), n)
}

type concretiser struct {
	kp     hx.KeyPair
	order  *gobig.Int
	v2, v3 []*gobig.Int // per index distinct values of class "2" and "3"
	big40  []*gobig.Int // per index oversize values
}

func newConcretiser(kp hx.KeyPair, rng *mrand.Rand, n int) *concretiser {
	c := &concretiser{kp: kp, order: kp.SK.Order.Go()}
	lm := kp.PK.Params.Lm
	for i := 0; i <= n; i++ {
		c.v2 = append(c.v2, new(gobig.Int).Add(randBits(rng, 200), one))
		x := randBits(rng, lm)
		x.SetBit(x, int(lm)-1, 1)
		c.v3 = append(c.v3, x)
		y := randBits(rng, lm+64)
		y.SetBit(y, int(lm)+63, 1)
		c.big40 = append(c.big40, y)
	}
	return c
}

// value concretises an abstract value (0, 2, 3, 40, or v+31 = "v plus the group order") for index i.
func (c *concretiser) value(i, a int) *gobig.Int {
	if a < -1 {
		return new(gobig.Int).Neg(c.value(i, -a))
	}
	switch a {
	case 0:
		return gobig.NewInt(0)
	case 2:
		return c.v2[i]
	case 3:
		return c.v3[i]
	case 40:
		return c.big40[i]
	case 31, 33, 34:
		return new(gobig.Int).Add(c.value(i, a-31), c.order)
	}
	hx.Fatal("unknown abstract value %d", a)
	return nil
}

func idxs(m map[string]int) []int {
	var ks []int
	for k := range m {
		i, _ := strconv.Atoi(k)
		ks = append(ks, i)
	}
	sort.Ints(ks)
	return ks
}

// ---------------------------------------------------------------- C01: cheating prover

type credential struct {
	ms      []*gobig.Int // signed values (index 0 = secret)
	A, e, v *gobig.Int
}

func (c *concretiser) sign(ms []*gobig.Int) *credential {
	bms := make([]*big.Int, len(ms))
	for i, x := range ms {
		bms[i] = big.Convert(new(gobig.Int).Set(x))
	}
	sig, err := gabi.SignMessageBlock(c.kp.SK, c.kp.PK, bms)
	if err != nil {
		hx.Fatal("SignMessageBlock: %v", err)
	}
	return &credential{ms: ms, A: sig.A.Go(), e: sig.E.Go(), v: sig.V.Go()}
}

func cheat(a *hx.Args, res *hx.Result) {
	lines := hx.ReadNDJSON(a.In)
	rng := hx.Rng(a.Seed, "disc-cheat")
	kps := hx.Keys1024()
	if a.Tier == "thorough" {
		kps = append(kps, hx.Key2048())
	}
	dedup := map[string]bool{}
	var cases []aCase
	for _, l := range lines {
		if dedup[string(l)] {
			continue
		}
		dedup[string(l)] = true
		var c aCase
		if err := json.Unmarshal(l, &c); err != nil {
			hx.Fatal("bad case: %v", err)
		}
		cases = append(cases, c)
	}
	var conc []*concretiser
	for _, kp := range kps {
		conc = append(conc, newConcretiser(kp, rng, 8))
	}
	// credentials are cached per (key, m)
	var mu sync.Mutex
	creds := map[string]*credential{}
	getCred := func(k int, c aCase) *credential {
		key := fmt.Sprint(k, c.M)
		mu.Lock()
		defer mu.Unlock()
		if cr, ok := creds[key]; ok {
			return cr
		}
		var ms []*gobig.Int
		nreal := len(c.M) - 2 // the last two indices are bases beyond the credential's attributes: nothing is signed there
		for _, i := range idxs(c.M)[:nreal] {
			ms = append(ms, conc[k].value(i, c.M[strconv.Itoa(i)]))
		}
		cr := conc[k].sign(ms)
		cr.ms = append(cr.ms, gobig.NewInt(0), gobig.NewInt(0))
		creds[key] = cr
		return cr
	}
	seeds := make([]int64, len(cases))
	for i := range seeds {
		seeds[i] = rng.Int63()
	}
	hx.Parallel(len(cases), func(i int) {
		c := cases[i]
		k := i % len(conc)
		runCheat(conc[k], getCred(k, c), c, mrand.New(mrand.NewSource(seeds[i])), res)
	})
	res.Notes["credentials"] = len(creds)
}

func runCheat(cz *concretiser, cr *credential, c aCase, rng *mrand.Rand, res *hx.Result) {
	pk := cz.kp.PK
	n := pk.N.Go()
	P := pk.Params
	maxA := new(gobig.Int).Sub(pow2(P.LmCommit+1), one)
	maxE := new(gobig.Int).Sub(pow2(P.LeCommit+1), one)
	ctx, nonce := gobig.NewInt(1), randBits(rng, 80)

	// randomise the signature: A' = A * S^r, v' = v - e*r
	r := randBits(rng, P.LRA)
	Ap := new(gobig.Int).Mul(cr.A, new(gobig.Int).Exp(pk.S.Go(), r, n))
	Ap.Mod(Ap, n)
	vp := new(gobig.Int).Sub(cr.v, new(gobig.Int).Mul(cr.e, r))
	ep := new(gobig.Int).Sub(cr.e, pow2(P.Le-1))

	// coefficients
	se := new(gobig.Int).Set(ep)
	switch c.Ecoef {
	case "shift":
		se.Add(se, cz.order)
	case "off":
		se.Add(se, one)
	}
	sv := new(gobig.Int).Set(vp)
	switch c.Vcoef {
	case "shift":
		sv.Add(sv, cz.order)
	case "off":
		sv.Add(sv, one)
	}
	disclosed := map[int]*gobig.Int{}
	for _, i := range idxs(c.Disc) {
		if a := c.Disc[strconv.Itoa(i)]; a != -1 {
			disclosed[i] = cz.value(i, a)
		}
	}
	coef := map[int]*gobig.Int{}
	rnd := map[int]*gobig.Int{}
	for _, i := range idxs(c.M) {
		h := c.Hid[strconv.Itoa(i)]
		if !h.On {
			continue
		}
		s := new(gobig.Int).Set(rep(pk, cr.ms[i]))
		switch h.Tag {
		case "comp":
			s.Sub(s, rep(pk, disclosed[i]))
		case "shift":
			s.Add(s, cz.order)
		case "off":
			s.Add(s, one)
		}
		coef[i] = s
		// randomiser: honest size, but large enough to keep a response with a (small) negative coefficient non-negative
		ri := randBits(rng, P.LmCommit)
		if s.Sign() < 0 {
			ri.SetBit(ri, int(P.LmCommit), 1).SetBit(ri, int(P.LmCommit)-1, 0)
		}
		switch h.Rc { // exact boundaries: the model offers them only for coefficient 0 (response = randomiser)
		case "max":
			ri.Set(maxA)
		case "over":
			ri.Add(maxA, one)
		case "neg":
			ri.SetInt64(-1)
		}
		rnd[i] = ri
	}
	re := randBits(rng, P.LeCommit)
	if c.Erc == "over" || c.Erc == "max" {
		// the e response is re + c*e' with e' > 0: start from the bound; "max" is corrected after the challenge is known
		re.Add(maxE, one)
	}
	rv := randBits(rng, P.LvCommit)

	if c.Ecoef == "zeroA" {
		// the group element A is a representative of 0 mod n
		Ap = []*gobig.Int{gobig.NewInt(0), new(gobig.Int).Set(n), new(gobig.Int).Neg(n), new(gobig.Int).Lsh(n, 1)}[rng.Intn(4)]
	}
	build := func(re *gobig.Int) (*gabi.ProofD, *gobig.Int) {
		T := modexp(Ap, re, n)
		T.Mul(T, modexp(pk.S.Go(), rv, n)).Mod(T, n)
		for i, ri := range rnd {
			T.Mul(T, modexp(pk.R[i].Go(), ri, n)).Mod(T, n)
		}
		if c.Ecoef == "zeroA" {
			T.SetInt64(0) // what a verifier that went on would reconstruct
		}
		chNonce := nonce
		if c.Sess == "other" {
			chNonce = new(gobig.Int).Add(nonce, one)
		}
		ch := verifx.HashCommit([]*big.Int{big.Convert(ctx), big.Convert(Ap), big.Convert(T), big.Convert(chNonce)}, false).Go()
		p := &gabi.ProofD{C: big.Convert(ch), A: big.Convert(Ap),
			EResponse:  big.Convert(new(gobig.Int).Add(re, new(gobig.Int).Mul(ch, se))),
			VResponse:  big.Convert(new(gobig.Int).Add(rv, new(gobig.Int).Mul(ch, sv))),
			AResponses: map[int]*big.Int{}, ADisclosed: map[int]*big.Int{}}
		for i, s := range coef {
			p.AResponses[i] = big.Convert(new(gobig.Int).Add(rnd[i], new(gobig.Int).Mul(ch, s)))
		}
		for i, v := range disclosed {
			p.ADisclosed[i] = big.Convert(new(gobig.Int).Set(v))
		}
		return p, ch
	}
	p, ch := build(re)
	if c.Erc == "neg" {
		// a negative e response cannot be hit exactly (it depends on the challenge); after the fact it is simply set
		p.EResponse = big.NewInt(-1)
	}
	_ = ch

	// what the proof reports as disclosed, as received: the verifier's application reads it AFTER verification
	reported := map[int]*gobig.Int{}
	nBefore := len(p.ADisclosed)
	for i, v := range p.ADisclosed {
		if v != nil {
			reported[i] = new(gobig.Int).Set(v.Go())
		}
	}
	var ok1, ok2 bool
	panicked, msg := hx.Try(func() {
		ok1 = p.Verify(pk, big.Convert(ctx), big.Convert(nonce), false)
		ok2 = gabi.ProofList{p}.Verify([]*gabikeys.PublicKey{pk}, big.Convert(ctx), big.Convert(nonce), false, nil)
	})
	if !panicked {
		for i, v := range reported {
			if now, ok := p.ADisclosed[i]; !ok || now == nil || now.Go().Cmp(v) != 0 {
				res.Violation("verification-alters-reported-values", fmt.Sprintf("after verification (accepted: %v) the proof reports another value for disclosed index %d than the one it was received with (%d bits before, %v after)", ok1 || ok2, i, v.BitLen(), now), hx.M{"case": c})
				return
			}
		}
		if len(p.ADisclosed) != nBefore {
			res.Violation("verification-alters-reported-values", "verification changed the set of disclosed indices of the proof object", hx.M{"case": c})
			return
		}
	}
	key := ""
	if c.Ndev > 0 {
		b, _ := json.Marshal(c)
		key = hx.Digest(b)
	}
	res.Eval(key)
	if panicked {
		res.Violation("verify-panic", "ProofD verification panicked: "+msg, hx.M{"case": c})
		return
	}
	// the same content in an object with a history: an honest proof of the library's prover is verified (accepted), then
	// changed field by field into this case's proof and verified again. The verdict is a function of the content alone.
	{
		real := len(cr.ms) - 2
		bms := make([]*big.Int, real)
		for i := range bms {
			bms[i] = big.Convert(new(gobig.Int).Set(cr.ms[i]))
		}
		cred := &gabi.Credential{Pk: pk, Attributes: bms, Signature: &gabi.CLSignature{
			A: big.Convert(new(gobig.Int).Set(cr.A)), E: big.Convert(new(gobig.Int).Set(cr.e)), V: big.Convert(new(gobig.Int).Set(cr.v))}}
		var ok3, ok4, hostOK bool
		panicked, msg = hx.Try(func() {
			host, herr := cred.CreateDisclosureProof(nil, nil, false, big.Convert(ctx), big.Convert(nonce))
			if herr != nil {
				hx.Fatal("host proof: %v", herr)
			}
			hostOK = host.Verify(pk, big.Convert(ctx), big.Convert(nonce), false)
			hx.Overwrite(host, p)
			ok3 = host.Verify(pk, big.Convert(ctx), big.Convert(nonce), false)
			ok4 = gabi.ProofList{host}.Verify([]*gabikeys.PublicKey{pk}, big.Convert(ctx), big.Convert(nonce), false, nil)
		})
		res.Count(fmt.Sprintf("reused-object:agrees=%v", ok3 == ok1 && ok4 == ok2))
		switch {
		case panicked:
			res.Violation("verify-panic", "verification of a ProofD object that was verified before panicked: "+msg, hx.M{"case": c})
			return
		case !hostOK:
			hx.Fatal("the host proof of the object-history replay does not verify")
		case ok3 != ok1 || ok4 != ok2:
			res.Violation("verdict-depends-on-object-history", fmt.Sprintf("the same proof content is judged %v/%v in a fresh ProofD object but %v/%v in an object that was verified before (accepted, then overwritten field by field)", ok1, ok2, ok3, ok4), hx.M{"case": c})
			return
		}
	}
	// what C01 demands of an accepted proof, evaluated on the concrete proof with the harness' own knowledge
	authentic, why := true, ""
	for i, v := range p.ADisclosed {
		if rep(pk, v.Go()).Cmp(rep(pk, cr.ms[i])) != 0 || v.Go().Sign() < 0 {
			authentic, why = false, fmt.Sprintf("index %d reported as disclosed with a value that was not signed", i)
		}
		if _, both := p.AResponses[i]; both {
			authentic, why = false, fmt.Sprintf("index %d reported both as disclosed and as hidden", i)
		}
	}
	for i, x := range p.AResponses {
		if x.Go().Sign() < 0 || x.Go().Cmp(maxA) > 0 {
			authentic, why = false, fmt.Sprintf("hidden response %d outside [0, 2^(LmCommit+1)-1]", i)
		}
	}
	if p.EResponse.Go().Sign() < 0 || p.EResponse.Go().Cmp(maxE) > 0 {
		authentic, why = false, "e response outside [0, 2^(LeCommit+1)-1]"
	}
	hidOK := c.Erc != "max" // "max" for e is not reachable exactly; such cases only count as conformance information
	res.Count(fmt.Sprintf("cheat:code=%v/%v:spec=%v", ok1, ok2, c.Verify))
	if (ok1 || ok2) && !authentic {
		res.Violation("unauthentic-proof-accepted", "a disclosure proof was accepted although "+why,
			hx.M{"case": c, "proofd_verify": ok1, "prooflist_verify": ok2})
		return
	}
	if c.Ndev == 0 && !(ok1 && ok2) {
		res.Violation("honest-proof-rejected", "the honest disclosure proof (built by the harness' own prover) was rejected", hx.M{"case": c})
		return
	}
	if hidOK && c.Verify != ok1 {
		res.Count("conformance-divergence")
	}
	res.Sample(hx.M{"case": c, "code_accepts": ok1})
}

// ---------------------------------------------------------------- C01: exact size boundaries

func sizes(a *hx.Args, res *hx.Result) {
	rng := hx.Rng(a.Seed, "disc-sizes")
	all := hx.Keys1024()
	if a.Tier == "thorough" {
		all = append(all, hx.Key2048())
	}
	for _, kp := range all {
		pk := kp.PK
		P := pk.Params
		maxA := new(gobig.Int).Sub(pow2(P.LmCommit+1), one)
		maxE := new(gobig.Int).Sub(pow2(P.LeCommit+1), one)
		mk := func() *gabi.ProofD {
			return &gabi.ProofD{C: big.Convert(randBits(rng, 256)), A: big.Convert(randBits(rng, 1000)),
				EResponse: big.Convert(randBits(rng, P.LeCommit)), VResponse: big.Convert(randBits(rng, P.LvCommit)),
				AResponses: map[int]*big.Int{0: big.Convert(randBits(rng, P.LmCommit)), 2: big.Convert(randBits(rng, P.LmCommit))},
				ADisclosed: map[int]*big.Int{1: big.NewInt(5)}}
		}
		type tc struct {
			name string
			mut  func(p *gabi.ProofD)
			want bool
		}
		v := func(x *gobig.Int, d int64) *big.Int { return big.Convert(new(gobig.Int).Add(x, gobig.NewInt(d))) }
		tcs := []tc{
			{"baseline", func(p *gabi.ProofD) {}, true},
			{"a=0", func(p *gabi.ProofD) { p.AResponses[2] = big.NewInt(0) }, true},
			{"a=max", func(p *gabi.ProofD) { p.AResponses[2] = v(maxA, 0) }, true},
			{"a=max+1", func(p *gabi.ProofD) { p.AResponses[2] = v(maxA, 1) }, false},
			{"a=-1", func(p *gabi.ProofD) { p.AResponses[2] = big.NewInt(-1) }, false},
			{"a0=max+1", func(p *gabi.ProofD) { p.AResponses[0] = v(maxA, 1) }, false},
			{"a0=-1", func(p *gabi.ProofD) { p.AResponses[0] = big.NewInt(-1) }, false},
			{"a=2max", func(p *gabi.ProofD) { p.AResponses[2] = big.Convert(new(gobig.Int).Lsh(maxA, 1)) }, false},
			{"e=0", func(p *gabi.ProofD) { p.EResponse = big.NewInt(0) }, true},
			{"e=max", func(p *gabi.ProofD) { p.EResponse = v(maxE, 0) }, true},
			{"e=max+1", func(p *gabi.ProofD) { p.EResponse = v(maxE, 1) }, false},
			{"e=-1", func(p *gabi.ProofD) { p.EResponse = big.NewInt(-1) }, false},
			{"e=max+order", func(p *gabi.ProofD) { p.EResponse = big.Convert(new(gobig.Int).Add(maxE, kp.SK.Order.Go())) }, false},
		}
		for _, t := range tcs {
			for rep := 0; rep < 3; rep++ {
				p := mk()
				t.mut(p)
				var got bool
				panicked, msg := hx.Try(func() { got = p.VerifyWithChallenge(pk, p.C) })
				res.Eval("sizes/" + t.name)
				if panicked {
					res.Violation("verify-panic", "ProofD.VerifyWithChallenge panicked: "+msg, hx.M{"case": t.name})
					continue
				}
				if got && !t.want {
					res.Violation("out-of-range-response-accepted", "response-size check accepted "+t.name, hx.M{"case": t.name, "key": pk.Issuer})
				}
				if !got && t.want {
					res.Violation("in-range-response-rejected", "response-size check rejected "+t.name+" (honest proofs can hit this value)", hx.M{"case": t.name, "key": pk.Issuer})
				}
			}
		}
	}
	res.Sample(hx.M{"size_boundaries": "a_response and e_response at 0, max, max+1, -1, 2*max, max+order on both 1024-bit keys"})
}

// ---------------------------------------------------------------- C04: the library's prover

func honest(a *hx.Args, res *hx.Result) {
	lines := hx.ReadNDJSON(a.In)
	rng := hx.Rng(a.Seed, "disc-honest")
	kps := hx.Keys1024()
	if a.Tier == "thorough" {
		kps = append(kps, hx.Key2048())
	}
	var conc []*concretiser
	for _, kp := range kps {
		conc = append(conc, newConcretiser(kp, rng, 8))
	}
	type hcase struct {
		M    map[string]int `json:"m"`
		Disc map[string]int `json:"disc"`
		Ndev int            `json:"ndev"`
	}
	dedup := map[string]bool{}
	var cases []hcase
	for _, l := range lines {
		var c hcase
		if err := json.Unmarshal(l, &c); err != nil {
			hx.Fatal("bad case: %v", err)
		}
		if c.Ndev != 0 {
			continue
		}
		k := fmt.Sprint(c.M, c.Disc)
		if dedup[k] {
			continue
		}
		dedup[k] = true
		cases = append(cases, c)
	}
	seeds := make([]int64, len(cases))
	for i := range seeds {
		seeds[i] = rng.Int63()
	}
	hx.Parallel(len(cases), func(ci int) {
		c := cases[ci]
		r := mrand.New(mrand.NewSource(seeds[ci]))
		k := ci % len(conc)
		cz := conc[k]
		pk := cz.kp.PK
		var ms []*big.Int
		for _, i := range idxs(c.M)[:len(c.M)-2] {
			v := cz.value(i, c.M[strconv.Itoa(i)])
			if c.M[strconv.Itoa(i)] == 2 && i == 1 {
				v = gobig.NewInt(1) // boundary value 1
			}
			if c.M[strconv.Itoa(i)] == 3 && i == 2 { // (only one index: hidden values must be pairwise distinct for the byte search)
				v = new(gobig.Int).Sub(pow2(pk.Params.Lm), one) // boundary value 2^Lm - 1
			}
			if c.M[strconv.Itoa(i)] == 40 && i == 1 {
				v = pow2(pk.Params.Lm) // boundary value 2^Lm: the smallest value that is signed by way of its hash
			}
			ms = append(ms, big.Convert(new(gobig.Int).Set(v)))
		}
		var cred *gabi.Credential
		nonrev := false
		variant := "minted"
		if ci%4 == 1 && len(ms) >= 3 && len(ms) <= 5 {
			// variant: the credential comes out of the real issuance protocol with a random-blind last attribute and a
			// non-revocation witness, and is shown with a non-revocation proof
			variant = "issued+randomblind+nonrev"
			wit, upd0, rerr := hx.NewRevocation(cz.kp)
			if rerr != nil {
				hx.Fatal("revocation: %v", rerr)
			}
			attrs := append([]*big.Int{}, ms[1:]...)
			blindIdx := len(attrs) - 1
			attrs[blindIdx] = nil
			attrs = append(attrs, wit.E)
			c2, ierr := hx.Issue(cz.kp, big.NewInt(1), ms[0], nil, attrs, wit, []int{blindIdx})
			if ierr != nil {
				res.Violation("honest-issuance-failed", fmt.Sprintf("issuance with a random-blind attribute and a witness failed: %v", ierr), hx.M{"m": c.M})
				return
			}
			cred, ms, nonrev = c2, c2.Attributes, true
			if ci%16 == 5 {
				// the credential is read back from storage (JSON) before it is shown
				variant = "issued+randomblind+nonrev+stored"
				bts, err := json.Marshal(c2)
				if err != nil {
					hx.Fatal("marshal credential: %v", err)
				}
				stored := &gabi.Credential{Pk: pk}
				if err := json.Unmarshal(bts, stored); err != nil {
					hx.Fatal("unmarshal credential: %v", err)
				}
				cred, ms = stored, stored.Attributes
			}
			if ci%8 == 1 {
				// the wallet's normal flow: a commitment is prepared in the background, somebody else is revoked, the witness is
				// updated - the next proof uses the REFRESHED commitment
				variant = "issued+randomblind+nonrev+refreshed"
				if err := cred.NonrevPrepareCache(); err != nil {
					hx.Fatal("NonrevPrepareCache: %v", err)
				}
				acc0, err := upd0.SignedAccumulator.UnmarshalVerify(pk)
				if err != nil {
					hx.Fatal("accumulator: %v", err)
				}
				otherE, _ := verifx.RandomPrimeInRange(crand.Reader, 3, revocation.Parameters.AttributeSize)
				acc1, ev1, err := acc0.Remove(cz.kp.SK, otherE, upd0.Events[0])
				if err != nil {
					hx.Fatal("Remove: %v", err)
				}
				upd1, err := revocation.NewUpdate(cz.kp.SK, acc1, []*revocation.Event{ev1})
				if err != nil {
					hx.Fatal("NewUpdate: %v", err)
				}
				if err := cred.NonRevocationWitness.Update(pk, upd1); err != nil {
					hx.Fatal("Witness.Update: %v", err)
				}
			}
		} else {
			sig, err := gabi.SignMessageBlock(cz.kp.SK, pk, ms)
			if err != nil {
				hx.Fatal("sign: %v", err)
			}
			cred = &gabi.Credential{Signature: sig, Pk: pk, Attributes: ms}
		}
		var disclosed []int
		for _, i := range idxs(c.Disc) {
			if c.Disc[strconv.Itoa(i)] != -1 {
				disclosed = append(disclosed, i)
			}
		}
		for _, issig := range []bool{false, true} {
			ctx, nonce := big.NewInt(1), big.Convert(randBits(r, 80))
			var list gabi.ProofList
			var tsA *big.Int
			var tsDisclosed []*big.Int
			var berr error
			panicked, msg := hx.Try(func() {
				var b *gabi.DisclosureProofBuilder
				b, berr = cred.CreateDisclosureProofBuilder(disclosed, nil, nonrev)
				if berr != nil {
					return
				}
				list, berr = gabi.ProofBuilderList{b}.BuildProofList(ctx, nonce, issig)
				tsA, tsDisclosed = b.TimestampRequestContributions()
			})
			res.Eval(fmt.Sprintf("honest/%v/%v/%v", c.M, disclosed, issig))
			detail := hx.M{"m": c.M, "disclosed": disclosed, "issig": issig, "key": pk.Issuer, "variant": variant}
			if panicked {
				res.Violation("prover-panic", "building a disclosure proof panicked: "+msg, detail)
				continue
			}
			if berr != nil {
				res.Violation("honest-proof-not-created", fmt.Sprintf("cannot create disclosure proof: %v", berr), detail)
				continue
			}
			p := list[0].(*gabi.ProofD)
			if !list.Verify([]*gabikeys.PublicKey{pk}, ctx, nonce, issig, nil) || !p.Verify(pk, ctx, nonce, issig) {
				if nonrev && hx.D10Ambiguous(p, len(ms)-1) {
					res.Count("discarded-known-finding-D10")
					continue
				}
				res.Violation("honest-proof-rejected", "the library's own disclosure proof does not verify", detail)
				continue
			}
			res.Count("variant:" + variant)
			// every group element of the non-revocation part is a reduced residue, and none is a multiple (as an integer) of the
			// holder's witness value u - the issuer, who can compute u for every credential, would recognise the holder by it
			if nr := p.NonRevocationProof; nr != nil {
				u := cred.NonRevocationWitness.U
				for name, x := range map[string]*big.Int{"C_r": nr.Cr, "C_u": nr.Cu} {
					if x.Sign() <= 0 || x.Cmp(pk.N) >= 0 || new(big.Int).Mod(x, u).Sign() == 0 {
						res.Violation("witness-value-leaks", fmt.Sprintf("%s of the non-revocation proof is sent as an integer of %d bits (|n| = %d) that is %sa multiple of the holder's witness value u",
							name, x.BitLen(), pk.N.BitLen(), map[bool]string{true: "", false: "not reduced / not "}[new(big.Int).Mod(x, u).Sign() == 0]), detail)
					}
				}
			}
			if list.Verify([]*gabikeys.PublicKey{pk}, ctx, nonce, !issig, nil) {
				res.Violation("session-kind-confusion", "a proof verifies for the other session kind", detail)
			}
			// exactly the chosen indices with their true values, a response for every other index
			dset := map[int]bool{}
			for _, i := range disclosed {
				dset[i] = true
			}
			okSets := len(p.ADisclosed) == len(disclosed) && len(p.AResponses) == len(ms)-len(disclosed)
			for i := range ms {
				if dset[i] {
					if v, ok := p.ADisclosed[i]; !ok || v.Cmp(ms[i]) != 0 {
						okSets = false
					}
				} else if _, ok := p.AResponses[i]; !ok {
					okSets = false
				}
			}
			if !okSets {
				res.Violation("wrong-disclosure-sets", "proof does not report exactly the chosen indices with their true values and a response for every other index", detail)
			}
			// minimality: no hidden value in the serialised proof or in the timestamp contribution
			js, _ := json.Marshal(p)
			for i := range ms {
				if dset[i] || ms[i].BitLen() < 64 {
					continue
				}
				for _, enc := range [][]byte{[]byte(ms[i].String()), ms[i].Bytes()} {
					b64, _ := json.Marshal(enc)
					if bytes.Contains(js, enc) || bytes.Contains(js, bytes.Trim(b64, `"=`)) {
						res.Violation("hidden-value-in-proof", fmt.Sprintf("serialised proof contains the value of hidden attribute %d", i), detail)
					}
				}
				bi, _ := json.Marshal(ms[i])
				if bytes.Contains(js, bytes.Trim(bi, `"=`)) {
					res.Violation("hidden-value-in-proof", fmt.Sprintf("serialised proof contains the value of hidden attribute %d", i), detail)
				}
			}
			if tsA == nil || tsA.Cmp(p.A) != 0 || len(tsDisclosed) != len(ms) {
				res.Violation("timestamp-contribution-wrong", "timestamp contribution does not carry A and one entry per attribute", detail)
			} else {
				for i := range ms {
					want := big.NewInt(0)
					if dset[i] {
						want = ms[i]
					}
					if tsDisclosed[i].Cmp(want) != 0 {
						res.Violation("timestamp-contribution-wrong", fmt.Sprintf("timestamp contribution entry %d is not %s", i,
							map[bool]string{true: "the disclosed value", false: "zero for a hidden attribute"}[dset[i]]), detail)
					}
				}
			}
			res.Sample(hx.M{"m": c.M, "disclosed": disclosed, "issig": issig, "verifies": true})
		}
	})
}
