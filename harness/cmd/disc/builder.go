package main

import (
	"bytes"
	crand "crypto/rand"
	"encoding/json"
	"fmt"
	mrand "math/rand"
	"time"

	"verifharness/hx"

	"github.com/privacybydesign/gabi"
	"github.com/privacybydesign/gabi/big"
	"github.com/privacybydesign/gabi/gabikeys"
)

// disc builder --in cases.ndjson
//
// Builder.tla: every complete life cycle of a DisclosureProofBuilder (the caller's list of indices in any order and with
// repetitions; TimestampRequestContributions asked for before the commitment, between commitment and proof, after the
// proof) is driven through the real builder, for disclosure and signature sessions. After every timestamp contribution
// the harness demands Minimal (the value of exactly the chosen indices, zero elsewhere, A of the later proof), after the
// proof Exact (ADisclosed / AResponses are the chosen set and its complement, true values, the proof verifies).
type bcase struct {
	Order []int    `json:"order"`
	Calls []string `json:"calls"`
	N     int      `json:"n"`
}

func builder(a *hx.Args, res *hx.Result) {
	rng := hx.Rng(a.Seed, "disc-builder")
	kps := hx.Keys1024()
	var cases []bcase
	for _, l := range hx.ReadNDJSON(a.In) {
		var c bcase
		if err := json.Unmarshal(l, &c); err != nil {
			hx.Fatal("bad case: %v", err)
		}
		cases = append(cases, c)
	}
	seeds := make([]int64, len(cases))
	for i := range seeds {
		seeds[i] = rng.Int63()
	}
	// one credential per key and attribute count (values of 200 bits: the byte search below needs distinctive values)
	type ck struct{ k, n int }
	creds := map[ck]*gabi.Credential{}
	for k, kp := range kps {
		for _, c := range cases {
			if creds[ck{k, c.N}] != nil {
				continue
			}
			ms := []*big.Int{big.Convert(randBits(rng, 250))}
			for i := 0; i < c.N; i++ {
				ms = append(ms, big.Convert(randBits(rng, 200)))
			}
			sig, err := gabi.SignMessageBlock(kp.SK, kp.PK, ms)
			if err != nil {
				hx.Fatal("sign: %v", err)
			}
			creds[ck{k, c.N}] = &gabi.Credential{Signature: sig, Pk: kp.PK, Attributes: ms}
		}
	}
	hx.Parallel(len(cases), func(ci int) {
		c := cases[ci]
		r := mrand.New(mrand.NewSource(seeds[ci]))
		k := ci % len(kps)
		pk := kps[k].PK
		cred := creds[ck{k, c.N}]
		ms := cred.Attributes
		chosen := map[int]bool{}
		for _, i := range c.Order {
			chosen[i] = true
		}
		for _, issig := range []bool{false, true} {
			ctx, nonce := big.NewInt(1), big.Convert(randBits(r, 80))
			detail := hx.M{"order": c.Order, "calls": c.Calls, "issig": issig, "key": pk.Issuer}
			res.Eval(fmt.Sprintf("builder/%v/%v/%v", c.Order, c.Calls, issig))
			var b *gabi.DisclosureProofBuilder
			var challenge *big.Int
			var p *gabi.ProofD
			var tsAs []*big.Int
			var err error
			bad := false
			fail := func(kind, what string) {
				if !bad {
					res.Violation(kind, what, detail)
				}
				bad = true
			}
			panicked, msg := hx.Try(func() {
				order := append([]int{}, c.Order...)
				b, err = cred.CreateDisclosureProofBuilder(order, nil, false)
				if err != nil {
					return
				}
				for ci, call := range c.Calls {
					switch call {
					case "trc":
						A, vals := b.TimestampRequestContributions()
						tsAs = append(tsAs, A)
						if len(vals) != len(ms) {
							fail("timestamp-contribution-wrong", fmt.Sprintf("call %d: the timestamp contribution has %d entries for %d attributes", ci, len(vals), len(ms)))
							continue
						}
						for i := range ms {
							want := big.NewInt(0)
							if chosen[i] {
								want = ms[i]
							}
							if vals[i] == nil || vals[i].Cmp(want) != 0 {
								fail("timestamp-contribution-wrong", fmt.Sprintf("call %d (%v): entry %d of the timestamp contribution is not %s", ci, c.Calls[:ci+1], i,
									map[bool]string{true: "the disclosed value", false: "zero for an attribute that was not chosen"}[chosen[i]]))
							}
						}
					case "commit":
						challenge, err = gabi.ProofBuilderList{b}.Challenge(ctx, nonce, issig)
					case "prove":
						var list gabi.ProofList
						list, err = gabi.ProofBuilderList{b}.BuildDistributedProofList(challenge, nil)
						if err == nil {
							p = list[0].(*gabi.ProofD)
						}
					}
					if err != nil {
						return
					}
				}
				for j := range order {
					if order[j] != c.Order[j] {
						fail("caller-list-modified", "the builder changed the caller's list of disclosed indices")
					}
				}
			})
			switch {
			case panicked:
				fail("prover-panic", "the builder life cycle panicked: "+msg)
				continue
			case err != nil || p == nil:
				fail("honest-proof-not-created", fmt.Sprintf("the builder life cycle failed: %v", err))
				continue
			}
			for _, A := range tsAs {
				if A == nil || A.Cmp(p.A) != 0 {
					fail("timestamp-contribution-wrong", "the timestamp contribution does not carry the A of the proof")
				}
			}
			if !p.Verify(pk, ctx, nonce, issig) || !(gabi.ProofList{p}).Verify([]*gabikeys.PublicKey{pk}, ctx, nonce, issig, nil) {
				fail("honest-proof-rejected", "the proof of this builder life cycle does not verify")
				continue
			}
			okSets := len(p.ADisclosed) == len(chosen) && len(p.AResponses) == len(ms)-len(chosen)
			for i := range ms {
				if chosen[i] {
					if v, ok := p.ADisclosed[i]; !ok || v.Cmp(ms[i]) != 0 {
						okSets = false
					}
				} else if _, ok := p.AResponses[i]; !ok {
					okSets = false
				}
			}
			if !okSets {
				fail("wrong-disclosure-sets", "proof does not report exactly the chosen indices with their true values and a response for every other index")
			}
			js, _ := json.Marshal(p)
			for i := range ms {
				if chosen[i] {
					continue
				}
				bi, _ := json.Marshal(ms[i])
				if bytes.Contains(js, []byte(ms[i].String())) || bytes.Contains(js, bytes.Trim(bi, `"=`)) {
					fail("hidden-value-in-proof", fmt.Sprintf("serialised proof contains the value of hidden attribute %d", i))
				}
			}
			if !bad && ci < 3 {
				res.Sample(hx.M{"order": c.Order, "calls": c.Calls, "issig": issig, "verifies": true})
			}
		}
	})
	extremeStreams(kps, creds[ck{0, cases[0].N}], res)
}

// constReader returns the same byte forever.
type constReader byte

func (c constReader) Read(p []byte) (int, error) {
	for i := range p {
		p[i] = byte(c)
	}
	return len(p), nil
}

// extremeStreams: the honest prover when the random source returns only zero bits / only one bits (every randomiser at the
// lower / upper end of its range): completeness must not depend on the random stream - the response-size bounds of the
// verifier leave room for the largest randomiser plus the largest challenge times the largest value. (Serial: the reader is
// process-global; a prover that loops on a constant stream is reported after 60 s.)
func extremeStreams(kps []hx.KeyPair, cred *gabi.Credential, res *hx.Result) {
	orig := crand.Reader
	defer func() { crand.Reader = orig }()
	pk := cred.Pk
	P := pk.Params
	maxAttr := new(big.Int).Sub(new(big.Int).Lsh(big.NewInt(1), P.Lm), big.NewInt(1))
	for _, stream := range []byte{0x00, 0xff} {
		for _, vals := range []string{"own", "max"} {
			c2 := cred
			if vals == "max" {
				// every attribute (and the secret) at the largest value the message length allows
				ms := make([]*big.Int, len(cred.Attributes))
				for i := range ms {
					ms[i] = new(big.Int).Set(maxAttr)
				}
				sig, err := gabi.SignMessageBlock(kps[0].SK, pk, ms)
				if err != nil {
					hx.Fatal("sign: %v", err)
				}
				c2 = &gabi.Credential{Signature: sig, Pk: pk, Attributes: ms}
			}
			ctx, nonce := big.NewInt(1), big.NewInt(0).Lsh(big.NewInt(1), 79)
			done := make(chan struct{})
			var p *gabi.ProofD
			var err error
			var panicked bool
			var msg string
			crand.Reader = constReader(stream)
			go func() {
				panicked, msg = hx.Try(func() { p, err = c2.CreateDisclosureProof([]int{1}, nil, false, ctx, nonce) })
				close(done)
			}()
			label := fmt.Sprintf("stream=%#02x values=%s", stream, vals)
			select {
			case <-done:
			case <-time.After(60 * time.Second):
				crand.Reader = orig
				res.Eval("extreme/" + label)
				res.Violation("prover-hangs-on-random-stream", "CreateDisclosureProof does not return when the random source is constant ("+label+")", hx.M{"stream": stream})
				return
			}
			crand.Reader = orig
			res.Eval("extreme/" + label)
			switch {
			case panicked:
				res.Violation("prover-panic", "CreateDisclosureProof panicked under a constant random stream ("+label+"): "+msg, hx.M{"stream": stream})
			case err != nil:
				res.Violation("honest-proof-not-created", fmt.Sprintf("CreateDisclosureProof failed under a constant random stream (%s): %v", label, err), hx.M{"stream": stream})
			case !p.Verify(pk, ctx, nonce, false):
				res.Violation("honest-proof-rejected", "the honest proof made with every randomiser at the end of its range ("+label+") does not verify", hx.M{"stream": stream})
			default:
				res.Count("extreme-stream-accepted")
			}
		}
	}
}
