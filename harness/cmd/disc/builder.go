package main

import (
	"bytes"
	"encoding/json"
	"fmt"
	mrand "math/rand"

	"verifharness/hx"

	"github.com/privacybydesign/gabi"
	"github.com/privacybydesign/gabi/big"
	"github.com/privacybydesign/gabi/gabikeys"
)

// disc builder --in cases.ndjson
//
// Builder.tla: every complete life cycle of a DisclosureProofBuilder (the caller's list of indices in any order and with
// repetitions; TimestampRequestContributions asked for before the commitment, between commitment and proof, after the
// proof) is driven through the real builder, for disclosure and signature sessions. After every timestamp contribution
// the harness demands Minimal (the value of exactly the chosen indices, zero elsewhere, A of the later proof), after the
// proof Exact (ADisclosed / AResponses are the chosen set and its complement, true values, the proof verifies).
type bcase struct {
	Order []int    `json:"order"`
	Calls []string `json:"calls"`
	N     int      `json:"n"`
}

func builder(a *hx.Args, res *hx.Result) {
	rng := hx.Rng(a.Seed, "disc-builder")
	kps := hx.Keys1024()
	var cases []bcase
	for _, l := range hx.ReadNDJSON(a.In) {
		var c bcase
		if err := json.Unmarshal(l, &c); err != nil {
			hx.Fatal("bad case: %v", err)
		}
		cases = append(cases, c)
	}
	seeds := make([]int64, len(cases))
	for i := range seeds {
		seeds[i] = rng.Int63()
	}
	// one credential per key and attribute count (values of 200 bits: the byte search below needs distinctive values)
	type ck struct{ k, n int }
	creds := map[ck]*gabi.Credential{}
	for k, kp := range kps {
		for _, c := range cases {
			if creds[ck{k, c.N}] != nil {
				continue
			}
			ms := []*big.Int{big.Convert(randBits(rng, 250))}
			for i := 0; i < c.N; i++ {
				ms = append(ms, big.Convert(randBits(rng, 200)))
			}
			sig, err := gabi.SignMessageBlock(kp.SK, kp.PK, ms)
			if err != nil {
				hx.Fatal("sign: %v", err)
			}
			creds[ck{k, c.N}] = &gabi.Credential{Signature: sig, Pk: kp.PK, Attributes: ms}
		}
	}
	hx.Parallel(len(cases), func(ci int) {
		c := cases[ci]
		r := mrand.New(mrand.NewSource(seeds[ci]))
		k := ci % len(kps)
		pk := kps[k].PK
		cred := creds[ck{k, c.N}]
		ms := cred.Attributes
		chosen := map[int]bool{}
		for _, i := range c.Order {
			chosen[i] = true
		}
		for _, issig := range []bool{false, true} {
			ctx, nonce := big.NewInt(1), big.Convert(randBits(r, 80))
			detail := hx.M{"order": c.Order, "calls": c.Calls, "issig": issig, "key": pk.Issuer}
			res.Eval(fmt.Sprintf("builder/%v/%v/%v", c.Order, c.Calls, issig))
			var b *gabi.DisclosureProofBuilder
			var challenge *big.Int
			var p *gabi.ProofD
			var tsAs []*big.Int
			var err error
			bad := false
			fail := func(kind, what string) {
				if !bad {
					res.Violation(kind, what, detail)
				}
				bad = true
			}
			panicked, msg := hx.Try(func() {
				order := append([]int{}, c.Order...)
				b, err = cred.CreateDisclosureProofBuilder(order, nil, false)
				if err != nil {
					return
				}
				for ci, call := range c.Calls {
					switch call {
					case "trc":
						A, vals := b.TimestampRequestContributions()
						tsAs = append(tsAs, A)
						if len(vals) != len(ms) {
							fail("timestamp-contribution-wrong", fmt.Sprintf("call %d: the timestamp contribution has %d entries for %d attributes", ci, len(vals), len(ms)))
							continue
						}
						for i := range ms {
							want := big.NewInt(0)
							if chosen[i] {
								want = ms[i]
							}
							if vals[i] == nil || vals[i].Cmp(want) != 0 {
								fail("timestamp-contribution-wrong", fmt.Sprintf("call %d (%v): entry %d of the timestamp contribution is not %s", ci, c.Calls[:ci+1], i,
									map[bool]string{true: "the disclosed value", false: "zero for an attribute that was not chosen"}[chosen[i]]))
							}
						}
					case "commit":
						challenge, err = gabi.ProofBuilderList{b}.Challenge(ctx, nonce, issig)
					case "prove":
						var list gabi.ProofList
						list, err = gabi.ProofBuilderList{b}.BuildDistributedProofList(challenge, nil)
						if err == nil {
							p = list[0].(*gabi.ProofD)
						}
					}
					if err != nil {
						return
					}
				}
				for j := range order {
					if order[j] != c.Order[j] {
						fail("caller-list-modified", "the builder changed the caller's list of disclosed indices")
					}
				}
			})
			switch {
			case panicked:
				fail("prover-panic", "the builder life cycle panicked: "+msg)
				continue
			case err != nil || p == nil:
				fail("honest-proof-not-created", fmt.Sprintf("the builder life cycle failed: %v", err))
				continue
			}
			for _, A := range tsAs {
				if A == nil || A.Cmp(p.A) != 0 {
					fail("timestamp-contribution-wrong", "the timestamp contribution does not carry the A of the proof")
				}
			}
			if !p.Verify(pk, ctx, nonce, issig) || !(gabi.ProofList{p}).Verify([]*gabikeys.PublicKey{pk}, ctx, nonce, issig, nil) {
				fail("honest-proof-rejected", "the proof of this builder life cycle does not verify")
				continue
			}
			okSets := len(p.ADisclosed) == len(chosen) && len(p.AResponses) == len(ms)-len(chosen)
			for i := range ms {
				if chosen[i] {
					if v, ok := p.ADisclosed[i]; !ok || v.Cmp(ms[i]) != 0 {
						okSets = false
					}
				} else if _, ok := p.AResponses[i]; !ok {
					okSets = false
				}
			}
			if !okSets {
				fail("wrong-disclosure-sets", "proof does not report exactly the chosen indices with their true values and a response for every other index")
			}
			js, _ := json.Marshal(p)
			for i := range ms {
				if chosen[i] {
					continue
				}
				bi, _ := json.Marshal(ms[i])
				if bytes.Contains(js, []byte(ms[i].String())) || bytes.Contains(js, bytes.Trim(bi, `"=`)) {
					fail("hidden-value-in-proof", fmt.Sprintf("serialised proof contains the value of hidden attribute %d", i))
				}
			}
			if !bad && ci < 3 {
				res.Sample(hx.M{"order": c.Order, "calls": c.Calls, "issig": issig, "verifies": true})
			}
		}
	})
}
