// Command ks binds Keyshare.tla to the real keyshare protocol functions (C14).
//
//	ks replay --in cases.ndjson   every (builder list, session, alteration of the second message) run for real
package main

import (
	"encoding/json"
	"fmt"
	gobig "math/big"
	mrand "math/rand"
	"os"
	"sync"

	"verifharness/hx"

	"github.com/privacybydesign/gabi"
	"github.com/privacybydesign/gabi/big"
	"github.com/privacybydesign/gabi/gabikeys"
	"github.com/privacybydesign/gabi/rangeproof"
)

type aBuilder struct {
	Kind string `json:"kind"`
	Key  string `json:"key"`
}
type aAlt struct {
	Name string `json:"name"`
	I    int    `json:"i"`
	K    string `json:"k"`
}
type aCase struct {
	Bl       []aBuilder `json:"bl"`
	Ctx      int        `json:"ctx"`
	Flag     bool       `json:"flag"`
	CtxSent  int        `json:"ctxSent"`
	Alt      aAlt       `json:"alt"`
	Released bool       `json:"released"`
	SameChal bool       `json:"samechal"`
}

func randBits(rng *mrand.Rand, bits uint) *big.Int {
	b := make([]byte, (bits+7)/8)
	rng.Read(b)
	x := new(gobig.Int).SetBytes(b)
	return big.Convert(x.Rsh(x, uint(len(b))*8-bits))
}

type world struct {
	keys       map[string]hx.KeyPair
	userSecret *big.Int
	kssSecret  *big.Int
	mu         sync.Mutex
	creds      map[string]*gabi.Credential
	ctx        map[int]*big.Int
}

func (w *world) kssP(key string) *big.Int {
	pk := w.keys[key].PK
	return big.Convert(new(gobig.Int).Exp(pk.R[0].Go(), w.kssSecret.Go(), pk.N.Go()))
}

func (w *world) participates(key string) bool { return key == "k1" || key == "k2" || key == "k3" }

// cred returns a credential on the given key whose secret is shared with the keyshare server iff the key participates.
func (w *world) cred(key string, nonrev bool) *gabi.Credential {
	k := fmt.Sprint(key, nonrev)
	w.mu.Lock()
	defer w.mu.Unlock()
	if c, ok := w.creds[k]; ok {
		return c
	}
	kp := w.keys[key]
	attrs := []*big.Int{big.NewInt(1001), big.NewInt(5), big.NewInt(1003)}
	var ksp *big.Int
	if w.participates(key) {
		ksp = w.kssP(key)
	}
	var c *gabi.Credential
	var err error
	if nonrev {
		wit, _, rerr := hx.NewRevocation(kp)
		if rerr != nil {
			hx.Fatal("revocation: %v", rerr)
		}
		c, err = hx.Issue(kp, w.ctx[1], w.userSecret, ksp, append(attrs, wit.E), wit, nil)
	} else {
		c, err = hx.Issue(kp, w.ctx[1], w.userSecret, ksp, attrs, nil, nil)
	}
	if err != nil {
		hx.Fatal("issuance: %v", err)
	}
	w.creds[k] = c
	return c
}

func (w *world) builder(b aBuilder, ctx *big.Int, rng *mrand.Rand) gabi.ProofBuilder {
	switch b.Kind {
	case "U":
		var ksp *big.Int
		if w.participates(b.Key) {
			ksp = w.kssP(b.Key)
		}
		var blind []int
		if rng.Intn(2) == 0 {
			blind = []int{2}
		}
		cb, err := gabi.NewCredentialBuilder(w.keys[b.Key].PK, ctx, w.userSecret, randBits(rng, 80), ksp, blind)
		if err != nil {
			hx.Fatal("credential builder: %v", err)
		}
		return cb
	case "D", "Dnonrev", "Drange":
		var rs map[int][]*rangeproof.Statement
		if b.Kind == "Drange" {
			st, err := rangeproof.NewStatement(rangeproof.GreaterOrEqual, big.NewInt(1))
			if err != nil {
				hx.Fatal("statement: %v", err)
			}
			rs = map[int][]*rangeproof.Statement{2: {st}}
		}
		// a credential's nonrev cache and witness are shared state: every builder gets its own shallow copy of the credential
		c := *w.cred(b.Key, b.Kind == "Dnonrev")
		db, err := c.CreateDisclosureProofBuilder([]int{1}, rs, b.Kind == "Dnonrev")
		if err != nil {
			hx.Fatal("disclosure builder: %v", err)
		}
		return db
	}
	hx.Fatal("unknown builder kind %s", b.Kind)
	return nil
}

func main() {
	if len(os.Args) < 2 || os.Args[1] != "replay" {
		hx.Fatal("usage: ks replay ...")
	}
	os.Args = append(os.Args[:1], os.Args[2:]...)
	a := hx.ParseArgs()
	res := hx.NewResult()
	rng := hx.Rng(a.Seed, "ks")
	k := hx.Keys1024()
	w := &world{keys: map[string]hx.KeyPair{"k1": k[0], "k2": k[1], "k3": hx.Key3(), "k4": hx.Key3()}, creds: map[string]*gabi.Credential{},
		userSecret: randBits(rng, 250), kssSecret: randBits(rng, 250),
		ctx: map[int]*big.Int{1: big.NewInt(1), 2: randBits(rng, 200)}}
	if a.Tier == "thorough" { // 1024-bit and larger keys mixed
		w.keys["k2"] = hx.Key2048()
	}
	kssKeys := map[string]*gabikeys.PublicKey{"k1": w.keys["k1"].PK, "k2": w.keys["k2"].PK}
	lines := hx.ReadNDJSON(a.In)
	var cases []aCase
	for _, l := range lines {
		var c aCase
		if err := json.Unmarshal(l, &c); err != nil {
			hx.Fatal("bad case: %v", err)
		}
		cases = append(cases, c)
	}
	if a.N > 0 && len(cases) > a.N { // seeded sample
		rng.Shuffle(len(cases), func(i, j int) { cases[i], cases[j] = cases[j], cases[i] })
		cases = cases[:a.N]
	}
	// warm the credential cache sequentially (issuance is not what is measured here)
	for _, key := range []string{"k1", "k2", "k3", "k4"} {
		w.cred(key, false)
		w.cred(key, true)
	}
	seeds := make([]int64, len(cases))
	for i := range seeds {
		seeds[i] = rng.Int63()
	}
	hx.Parallel(len(cases), func(i int) {
		runCase(w, kssKeys, cases[i], mrand.New(mrand.NewSource(seeds[i])), res)
	})
	legacy(w, rng, res)
	res.Write(a.Out)
}

// legacy: the first generation of the protocol (KeyshareResponseLegacy, ProofP carrying P, MergeProofP adding responses):
// only its completeness is stated by the property. The user computes the challenge alone and the server answers it.
func legacy(w *world, rng *mrand.Rand, res *hx.Result) {
	for trial := 0; trial < 24; trial++ {
		key := []string{"k1", "k2"}[trial%2]
		kp := w.keys[key]
		kinds := []string{"D", "Dnonrev", "Drange"}
		b := aBuilder{Kind: kinds[trial%3], Key: key}
		ctx, nonce, sig := w.ctx[1+trial%2], randBits(rng, 128), trial%4 >= 2
		var ok bool
		var list gabi.ProofList
		var relation bool
		panicked, msg := hx.Try(func() {
			builder := w.builder(b, ctx, rng)
			kssRand, kssComm, err := gabi.NewKeyshareCommitments(w.kssSecret, []*gabikeys.PublicKey{kp.PK})
			if err != nil {
				hx.Fatal("NewKeyshareCommitments: %v", err)
			}
			builder.SetProofPCommitment(kssComm[0])
			builders := gabi.ProofBuilderList{builder}
			challenge, err := builders.Challenge(ctx, nonce, sig)
			if err != nil {
				hx.Fatal("Challenge: %v", err)
			}
			proofP := gabi.KeyshareResponseLegacy(w.kssSecret, kssRand, challenge, kp.PK)
			// the server's response is a Schnorr response for P = R_0^secret: R_0^s = W * P^c
			n := kp.PK.N.Go()
			lhs := new(gobig.Int).Exp(kp.PK.R[0].Go(), proofP.SResponse.Go(), n)
			rhs := new(gobig.Int).Exp(kssComm[0].P.Go(), challenge.Go(), n)
			rhs.Mul(rhs, kssComm[0].Pcommit.Go()).Mod(rhs, n)
			relation = lhs.Cmp(rhs) == 0 && proofP.P.Cmp(kssComm[0].P) == 0
			list, err = builders.BuildDistributedProofList(challenge, []*gabi.ProofP{proofP})
			if err != nil {
				hx.Fatal("BuildDistributedProofList: %v", err)
			}
			ok = list.Verify([]*gabikeys.PublicKey{kp.PK}, ctx, nonce, sig, []string{"kss"})
		})
		res.Eval(fmt.Sprintf("legacy/%d", trial))
		det := hx.M{"legacy": true, "builder": b, "sig": sig}
		switch {
		case panicked:
			res.Violation("keyshare-panic", "legacy keyshare flow panicked: "+msg, det)
		case !relation:
			res.Violation("legacy-response-wrong", "KeyshareResponseLegacy does not satisfy R_0^s = W * P^c", det)
		case !ok:
			for _, p := range list {
				if pd, isD := p.(*gabi.ProofD); isD && hx.D10Ambiguous(pd, 4) {
					res.Count("discarded-known-finding-D10")
					return
				}
			}
			res.Violation("joint-proof-list-rejected", "the proof list of an honest legacy keyshare run does not verify", det)
		}
	}
}

func runCase(w *world, kssKeys map[string]*gabikeys.PublicKey, c aCase, rng *mrand.Rand, res *hx.Result) {
	ctx := w.ctx[c.Ctx]
	nonce := randBits(rng, 128)
	var builders gabi.ProofBuilderList
	var keysSlice []*gabikeys.PublicKey
	for _, b := range c.Bl {
		builders = append(builders, w.builder(b, ctx, rng))
		keysSlice = append(keysSlice, w.keys[b.Key].PK)
	}
	key := ""
	if c.Alt.Name != "none" {
		b, _ := json.Marshal(c)
		key = hx.Digest(b)
	}
	res.Eval(key)
	det := hx.M{"case": c}
	var proofP *gabi.ProofP
	var respErr error
	var challenge *big.Int
	var kssRandomizer *big.Int
	panicked, msg := hx.Try(func() {
		userRandomizer := randBits(rng, gabikeys.DefaultSystemParameters[1024].LmCommit)
		randomizers := map[string]*big.Int{"secretkey": userRandomizer}
		userKeys := kssKeys
		namesK3 := false
		for _, b := range c.Bl {
			namesK3 = namesK3 || b.Key == "k3"
		}
		if namesK3 { // the user names a key the server does not know - consistently, from the first message on
			userKeys = map[string]*gabikeys.PublicKey{"k3": w.keys["k3"].PK}
			for k, v := range kssKeys {
				userKeys[k] = v
			}
		}
		commRequest, hashInput, err := gabi.KeyshareUserCommitmentRequest(builders, randomizers, userKeys)
		if err != nil {
			hx.Fatal("KeyshareUserCommitmentRequest: %v", err)
		}
		var kssComm []*gabi.ProofPCommitment
		kssRandomizer, kssComm, err = gabi.NewKeyshareCommitments(w.kssSecret, keysSlice)
		if err != nil {
			hx.Fatal("NewKeyshareCommitments: %v", err)
		}
		for i, b := range c.Bl {
			if w.participates(b.Key) {
				builders[i].SetProofPCommitment(kssComm[i])
			}
		}
		responseRequest, ch, err := gabi.KeyshareUserResponseRequest(builders, randomizers, hashInput, ctx, nonce, c.Flag)
		if err != nil {
			hx.Fatal("KeyshareUserResponseRequest: %v", err)
		}
		challenge = ch
		if c.CtxSent == 0 {
			responseRequest.Context = nil
		}
		// the cheating user alters the challenge inputs of the second message
		in := append([]gabi.KeyshareUserChallengeInput[string]{}, responseRequest.UserChallengeInput...)
		i := c.Alt.I - 1
		bump := func(x *big.Int) *big.Int { return new(big.Int).Add(x, big.NewInt(1)) }
		switch c.Alt.Name {
		case "none":
		case "value":
			in[i].Value = bump(in[i].Value)
		case "commitment":
			in[i].Commitment = bump(in[i].Commitment)
		case "addOther":
			in[i].OtherCommitments = append(append([]*big.Int{}, in[i].OtherCommitments...), big.NewInt(7))
		case "dropOther":
			in[i].OtherCommitments = append([]*big.Int{}, in[i].OtherCommitments[:len(in[i].OtherCommitments)-1]...)
		case "alterOther":
			o := append([]*big.Int{}, in[i].OtherCommitments...)
			o[0] = bump(o[0])
			in[i].OtherCommitments = o
		case "swapOthers":
			o := append([]*big.Int{}, in[i].OtherCommitments...)
			o[0], o[1] = o[1], o[0]
			in[i].OtherCommitments = o
		case "valueNil":
			in[i].Value = nil
		case "commitmentNil":
			in[i].Commitment = nil
		case "otherNil":
			o := append([]*big.Int{}, in[i].OtherCommitments...)
			o[0] = nil
			in[i].OtherCommitments = o
		case "negate":
			in[i].Value, in[i].Commitment = new(big.Int).Neg(in[i].Value), new(big.Int).Neg(in[i].Commitment)
		case "negateOther":
			o := append([]*big.Int{}, in[i].OtherCommitments...)
			o[0] = new(big.Int).Neg(o[0])
			in[i].OtherCommitments = o
		case "nonceNil":
			responseRequest.Nonce = nil
		case "respNil":
			responseRequest.UserResponse = nil
		case "shiftValComm":
			in[i].Value, in[i].Commitment = redivide(in[i].Value, in[i].Commitment)
		case "shiftCommOther":
			o := append([]*big.Int{}, in[i].OtherCommitments...)
			in[i].Commitment, o[0] = redivide(in[i].Commitment, o[0])
			in[i].OtherCommitments = o
		case "shiftNext":
			in[i].Commitment, in[i+1].Value = redivide(in[i].Commitment, in[i+1].Value)
		case "keyOther", "keyUnknown":
			k := c.Alt.K
			in[i].KeyID = &k
		case "keyDropped":
			in[i].KeyID = nil
		case "swap":
			in[i], in[i+1] = in[i+1], in[i]
		case "drop":
			in = append(in[:i:i], in[i+1:]...)
		case "duplicate":
			in = append(in, in[i])
		default:
			hx.Fatal("unknown alteration %s", c.Alt.Name)
		}
		responseRequest.UserChallengeInput = in
		proofP, respErr = gabi.KeyshareResponse(w.kssSecret, kssRandomizer, commRequest, responseRequest, kssKeys)
	})
	if panicked {
		res.Violation("keyshare-panic", "keyshare protocol function panicked: "+msg, det)
		return
	}
	released := respErr == nil && proofP != nil
	res.Count(fmt.Sprintf("%s:code=%v:spec=%v", c.Alt.Name, released, c.Released))
	usesK3 := false
	for _, b := range c.Bl {
		usesK3 = usesK3 || b.Key == "k3"
	}
	if usesK3 && c.Alt.Name == "none" {
		if released {
			res.Violation("response-released-for-unknown-key", "the keyshare server released its response for challenge inputs naming a key it does not know", det)
		}
		return
	}
	if c.Alt.Name != "none" {
		if released {
			res.Violation("response-released-for-altered-inputs",
				"the keyshare server released its response although the challenge inputs of the second message differ from those committed to in the first ("+c.Alt.Name+")", det)
		}
		return
	}
	// honest run: server responds, both sides computed the same challenge, the joint list verifies
	if !released {
		res.Violation("honest-keyshare-run-refused", fmt.Sprintf("keyshare server refused an honest run: %v", respErr), det)
		return
	}
	anyPart := false
	for _, b := range c.Bl {
		anyPart = anyPart || w.participates(b.Key)
	}
	if c.SameChal && proofP.C.Cmp(challenge) != 0 {
		res.Violation("challenge-mismatch", "user and keyshare server computed different challenges in an honest run", det)
		return
	}
	proofPs := make([]*gabi.ProofP, len(builders))
	var labels []string
	for i, b := range c.Bl {
		if w.participates(b.Key) {
			proofPs[i] = proofP
			labels = append(labels, "kss")
		} else {
			labels = append(labels, "")
		}
	}
	var ok bool
	var list gabi.ProofList
	panicked, msg = hx.Try(func() {
		var err error
		list, err = builders.BuildDistributedProofList(challenge, proofPs)
		if err != nil {
			hx.Fatal("BuildDistributedProofList: %v", err)
		}
		ok = list.Verify(keysSlice, w.ctx[c.Ctx], nonce, c.Flag, labels)
	})
	if panicked {
		res.Violation("keyshare-panic", "building or verifying the joint proof list panicked: "+msg, det)
		return
	}
	if !ok {
		for _, p := range list {
			if pd, isD := p.(*gabi.ProofD); isD && hx.D10Ambiguous(pd, 4) { // the witness value is attribute 4 of these credentials
				res.Count("discarded-known-finding-D10")
				return
			}
		}
		res.Violation("joint-proof-list-rejected", "the proof list built from an honest keyshare run does not verify for secret = user share + server share", det)
		return
	}
	res.Sample(hx.M{"honest": c.Bl, "ctx": c.Ctx, "flag": c.Flag, "verifies": true})
}

// redivide moves leading bytes of b to the end of a such that the concatenation of the big-endian encodings of the two
// numbers stays the same (the byte that becomes b's first must not be zero).
func redivide(a, b *big.Int) (*big.Int, *big.Int) {
	ab, bb := a.Bytes(), b.Bytes()
	k := 1
	for k < len(bb)-1 && bb[k] == 0 {
		k++
	}
	if k >= len(bb) || bb[k] == 0 {
		hx.Fatal("cannot re-divide %x | %x", ab, bb)
	}
	na := new(big.Int).SetBytes(append(append([]byte{}, ab...), bb[:k]...))
	nb := new(big.Int).SetBytes(bb[k:])
	return na, nb
}
