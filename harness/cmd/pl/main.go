// Command pl binds ProofList.tla to the real ProofList.Verify (C02, C03).
//
//	pl replay --in cases.ndjson    every attempt of the free list adversary, assembled from two real sessions
package main

import (
	"encoding/json"
	"fmt"
	gobig "math/big"
	mrand "math/rand"
	"os"
	"sync"

	"verifharness/hx"

	"github.com/privacybydesign/gabi"
	"github.com/privacybydesign/gabi/big"
	"github.com/privacybydesign/gabi/gabikeys"
	"github.com/privacybydesign/gabi/rangeproof"
)

type aBuilder struct {
	Kind   string `json:"kind"`
	Key    int    `json:"key"`
	Secret int    `json:"secret"`
	Mode   string `json:"mode"`
}
type aTuple struct {
	Ctx   int  `json:"ctx"`
	Nonce int  `json:"nonce"`
	Sig   bool `json:"sig"`
}
type aProof struct {
	Sid int      `json:"sid"`
	Pos int      `json:"pos"`
	B   aBuilder `json:"b"`
}
type aAtt struct {
	Ctx       int      `json:"ctx"`
	Nonce     int      `json:"nonce"`
	Issig     bool     `json:"issig"`
	UseLabels bool     `json:"useLabels"`
	Labels    []string `json:"labels"`
	KeysShort bool     `json:"keysShort"`
	Keys      []int    `json:"keys"`
	List      []aProof `json:"list"`
}
type aCase struct {
	Bl       []aBuilder `json:"bl"`
	Sess     []aTuple   `json:"sess"`
	Att      aAtt       `json:"att"`
	Verify   bool       `json:"verify"`
	Honest   bool       `json:"honest"`
	Linked   bool       `json:"linked"`
	Complete bool       `json:"complete"`
}

func randBits(rng *mrand.Rand, bits uint) *big.Int {
	b := make([]byte, (bits+7)/8)
	rng.Read(b)
	x := new(gobig.Int).SetBytes(b)
	return big.Convert(x.Rsh(x, uint(len(b))*8-bits))
}

type world struct {
	kps     []hx.KeyPair
	secrets map[int]*big.Int
	ctx     map[int]*big.Int
	nonce   map[int]*big.Int
	mu      sync.Mutex
	creds   map[string]*gabi.Credential
	rng     *mrand.Rand
}

// credNonrev: a credential of (key, secret) with a non-revocation witness as attribute 3
func (w *world) credNonrev(key, secret int) *gabi.Credential {
	k := fmt.Sprint("nr", key, secret)
	w.mu.Lock()
	defer w.mu.Unlock()
	if c, ok := w.creds[k]; ok {
		return c
	}
	kp := w.kps[key-1]
	wit, _, err := hx.NewRevocation(kp)
	if err != nil {
		hx.Fatal("revocation: %v", err)
	}
	ms := []*big.Int{w.secrets[secret], randBits(w.rng, 200), big.NewInt(77), wit.E}
	sig, err := gabi.SignMessageBlock(kp.SK, kp.PK, ms)
	if err != nil {
		hx.Fatal("sign: %v", err)
	}
	c := &gabi.Credential{Signature: sig, Pk: kp.PK, Attributes: ms, NonRevocationWitness: wit}
	w.creds[k] = c
	return c
}

func (w *world) cred(key, secret int) *gabi.Credential {
	k := fmt.Sprint(key, secret)
	w.mu.Lock()
	defer w.mu.Unlock()
	if c, ok := w.creds[k]; ok {
		return c
	}
	kp := w.kps[key-1]
	ms := []*big.Int{w.secrets[secret], randBits(w.rng, 200), randBits(w.rng, 200)}
	sig, err := gabi.SignMessageBlock(kp.SK, kp.PK, ms)
	if err != nil {
		hx.Fatal("sign: %v", err)
	}
	c := &gabi.Credential{Signature: sig, Pk: kp.PK, Attributes: ms}
	w.creds[k] = c
	return c
}

// session builds one honest session over the builder list with the given tuple.
func (w *world) session(bl []aBuilder, t aTuple) gabi.ProofList {
	var builders gabi.ProofBuilderList
	for _, b := range bl {
		kp := w.kps[b.Key-1]
		switch b.Kind {
		case "D":
			disclosed := []int{1}
			if b.Mode == "side" {
				disclosed = []int{0, 1} // discloses the secret key attribute: no secret-key response
			}
			db, err := w.cred(b.Key, b.Secret).CreateDisclosureProofBuilder(disclosed, nil, false)
			if err != nil {
				hx.Fatal("disclosure builder: %v", err)
			}
			builders = append(builders, db)
		case "Dn", "Dr":
			c := *w.credNonrev(b.Key, b.Secret) // own copy: the non-revocation cache is per credential object
			var rs map[int][]*rangeproof.Statement
			if b.Kind == "Dr" {
				st, err := rangeproof.NewStatement(rangeproof.GreaterOrEqual, big.NewInt(10))
				if err != nil {
					hx.Fatal("statement: %v", err)
				}
				rs = map[int][]*rangeproof.Statement{2: {st}}
			}
			db, err := c.CreateDisclosureProofBuilder([]int{1}, rs, b.Kind == "Dn")
			if err != nil {
				hx.Fatal("disclosure builder: %v", err)
			}
			builders = append(builders, db)
		case "U":
			var blind []int
			if b.Mode == "side" {
				blind = []int{-1} // user share on base R_0: a second response for the secret-key base
			}
			cb, err := gabi.NewCredentialBuilder(kp.PK, w.ctx[t.Ctx], w.secrets[b.Secret], randBits(w.rng, 80), nil, blind)
			if err != nil {
				hx.Fatal("credential builder: %v", err)
			}
			builders = append(builders, cb)
		}
	}
	pl, err := builders.BuildProofList(w.ctx[t.Ctx], w.nonce[t.Nonce], t.Sig)
	if err != nil {
		hx.Fatal("BuildProofList: %v", err)
	}
	return pl
}

func main() {
	if len(os.Args) < 2 || os.Args[1] != "replay" {
		hx.Fatal("usage: pl replay ...")
	}
	os.Args = append(os.Args[:1], os.Args[2:]...)
	a := hx.ParseArgs()
	res := hx.NewResult()
	rng := hx.Rng(a.Seed, "pl")
	w := &world{kps: hx.Keys1024(), rng: rng, creds: map[string]*gabi.Credential{},
		secrets: map[int]*big.Int{1: randBits(rng, 250), 2: randBits(rng, 250)},
		ctx:     map[int]*big.Int{0: big.NewInt(0), 1: big.NewInt(1), 2: randBits(rng, 200)},
		nonce:   map[int]*big.Int{0: big.NewInt(0), 1: randBits(rng, 80), 2: randBits(rng, 80)}}
	// value 3 = the negation of value 1
	w.ctx[3] = new(big.Int).Neg(w.ctx[1])
	w.nonce[3] = new(big.Int).Neg(w.nonce[1])
	// flipping one bit is the minimal change of context/nonce
	if a.Seed%2 == 0 {
		w.nonce[2] = big.Convert(new(gobig.Int).Xor(w.nonce[1].Go(), gobig.NewInt(1)))
		w.ctx[2] = big.NewInt(3)
	}
	lines := hx.ReadNDJSON(a.In)
	var cases []aCase
	groups := map[string][]int{}
	for _, l := range lines {
		var c aCase
		if err := json.Unmarshal(l, &c); err != nil {
			hx.Fatal("bad case: %v", err)
		}
		g, _ := json.Marshal([]any{c.Bl, c.Sess})
		groups[string(g)] = append(groups[string(g)], len(cases))
		cases = append(cases, c)
	}
	// one pair of real sessions per (builder list, session tuples)
	type pool struct{ s [2]gabi.ProofList }
	pools := map[string]*pool{}
	for g, idx := range groups {
		c := cases[idx[0]]
		pools[g] = &pool{[2]gabi.ProofList{w.session(c.Bl, c.Sess[0]), w.session(c.Bl, c.Sess[1])}}
	}
	var order []struct {
		g string
		i int
	}
	for g, idx := range groups {
		for _, i := range idx {
			order = append(order, struct {
				g string
				i int
			}{g, i})
		}
	}
	hx.Parallel(len(order), func(n int) {
		c := cases[order[n].i]
		p := pools[order[n].g]
		var list gabi.ProofList
		for _, ap := range c.Att.List {
			list = append(list, p.s[ap.Sid-1][ap.Pos-1])
		}
		var keys []*gabikeys.PublicKey
		for _, k := range c.Att.Keys {
			keys = append(keys, w.kps[k-1].PK)
		}
		if c.Att.KeysShort && len(keys) > 0 {
			keys = keys[:len(keys)-1]
		}
		var labels []string
		if c.Att.UseLabels {
			labels = append(labels, c.Att.Labels...)
			if labels == nil {
				labels = []string{}
			}
		}
		var ok bool
		panicked, msg := hx.Try(func() {
			ok = list.Verify(keys, w.ctx[c.Att.Ctx], w.nonce[c.Att.Nonce], c.Att.Issig, labels)
		})
		key := ""
		if !c.Honest || !c.Linked {
			b, _ := json.Marshal([]any{c.Bl, c.Sess, c.Att})
			key = hx.Digest(b)
		}
		res.Eval(key)
		res.Count(fmt.Sprintf("code=%v:spec=%v:honest=%v:linked=%v", ok, c.Verify, c.Honest, c.Linked))
		if panicked {
			res.Violation("verify-panic", "ProofList.Verify panicked: "+msg, hx.M{"case": c})
			return
		}
		if ok && !c.Honest {
			res.Violation("list-accepted-outside-its-session", "ProofList.Verify accepted a list that is not one honest session verified with its own context, nonce, flag and keys",
				hx.M{"case": c})
			return
		}
		if ok && !c.Linked {
			res.Violation("unlinked-proofs-accepted", "ProofList.Verify accepted proofs bound to different secrets under one label", hx.M{"case": c})
			return
		}
		if !ok && c.Complete {
			for _, pr := range list {
				if pd, isD := pr.(*gabi.ProofD); isD && hx.D10Ambiguous(pd, 3) {
					res.Count("discarded-known-finding-D10")
					return
				}
			}
			res.Violation("honest-list-rejected", "an honest session sharing one secret per label was rejected", hx.M{"case": c})
			return
		}
		if ok {
			res.Sample(hx.M{"accepted": true, "builders": c.Bl, "labels": labels})
		}
	})
	res.Notes["session_pairs"] = len(pools)
	res.Write(a.Out)
}
