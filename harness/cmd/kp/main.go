// Command kp binds KeyProof.tla to the real key-correctness proofs of gabi (package keyproof, property C17).
//
//	kp gennaro --in cases.ndjson   part (a): toy moduli of TLC ("N" records) with brute-force provers, medium-size bad
//	                               moduli of every forbidden shape with cheating provers that know the factorisation,
//	                               and every response of honest component proofs altered - all against the COMPONENT
//	                               verifiers (square-free, prime-power product, disjoint prime product, almost-safe-
//	                               prime product, and their conjunction with the plain checks)
//	kp orstep  --in cases.ndjson   the OR composition expStep = expStepA OR expStepB as a component: honest proofs with
//	                               either branch real, every leaf altered, a forgery with both branches simulated
//	kp full    --in cases.ndjson   part (b): random good keys, ValidKeyProof built, verified, JSON round trip; leaves
//	                               enumerated by reflection and mapped to the leaf classes of the specification; the
//	                               alteration / context cases of TLC ("C", "X" records) applied to a seeded sample
//	kp worker  <keyfile>           (internal) verification worker of `kp full`: one process per worker so that a panic in
//	                               one of the verifier's own goroutines is an outcome, not the end of the run
//
// Input: one ndjson file, every line {"tag": "P"|"L"|"C"|"X"|"N", "rec": {...}} as printed by KeyProofGen.tla.
package main

import (
	"encoding/json"
	gobig "math/big"
	"os"

	"verifharness/hx"

	"github.com/privacybydesign/gabi/big"
)

type params struct {
	SF          int `json:"sf"`
	PPP         int `json:"ppp"`
	DPP         int `json:"dpp"`
	ASPP        int `json:"aspp"`
	MinFactor   int `json:"minfactor"`
	RangeIters  int `json:"rangeiters"`
	RangeEps    int `json:"rangeeps"`
	Nonce       int `json:"nonce"`
	RangeNonNeg int `json:"rangenonneg"`
}

type leafClass struct {
	P      []string `json:"p"`
	T      string   `json:"t"`
	C      string   `json:"c"`
	Branch string   `json:"branch"`
}

type altCase struct {
	P      []string `json:"p"`
	T      string   `json:"t"`
	K      string   `json:"k"`
	Branch string   `json:"branch"`
	Expect string   `json:"expect"`
	Fails  []string `json:"fails"`
	Leaf   bool     `json:"leaf"`
}

type ctxCase struct {
	N         string   `json:"n"`
	B         string   `json:"b"`
	Transport string   `json:"transport"`
	Expect    string   `json:"expect"`
	Fails     []string `json:"fails"`
}

type modCase struct {
	N            int  `json:"n"`
	Units        int  `json:"units"`
	Prime        bool `json:"prime"`
	NPrimes      int  `json:"nprimes"`
	InSF         bool `json:"insf"`
	InPPP        bool `json:"inppp"`
	PPPMust      bool `json:"pppmust"`
	InDPP        bool `json:"indpp"`
	ASPPMust     bool `json:"asppmust"`
	Provable     bool `json:"provable"`
	CSF          int  `json:"csf"`
	CPPP         int  `json:"cppp"`
	CDPP         int  `json:"cdpp"`
	OddPhiPrimes int  `json:"oddphiprimes"`
}

type input struct {
	Params  *params
	Leaves  []leafClass
	Alts    []altCase
	Ctx     []ctxCase
	Mods    []modCase
	Replays []json.RawMessage // "R" records: a recorded violation to be replayed
}

func readInput(path string) *input {
	in := &input{}
	if path == "" {
		return in
	}
	for _, raw := range hx.ReadNDJSON(path) {
		var l struct {
			Tag string          `json:"tag"`
			Rec json.RawMessage `json:"rec"`
		}
		if err := json.Unmarshal(raw, &l); err != nil {
			hx.Fatal("input line: %v", err)
		}
		var err error
		switch l.Tag {
		case "P":
			in.Params = &params{}
			err = json.Unmarshal(l.Rec, in.Params)
		case "L":
			var x leafClass
			err = json.Unmarshal(l.Rec, &x)
			in.Leaves = append(in.Leaves, x)
		case "C":
			var x altCase
			err = json.Unmarshal(l.Rec, &x)
			in.Alts = append(in.Alts, x)
		case "X":
			var x ctxCase
			err = json.Unmarshal(l.Rec, &x)
			in.Ctx = append(in.Ctx, x)
		case "N":
			var x modCase
			err = json.Unmarshal(l.Rec, &x)
			in.Mods = append(in.Mods, x)
		case "R":
			in.Replays = append(in.Replays, l.Rec)
		default:
			hx.Fatal("unknown input tag %q", l.Tag)
		}
		if err != nil {
			hx.Fatal("input record %s: %v", l.Tag, err)
		}
	}
	return in
}

func main() {
	if len(os.Args) < 2 {
		hx.Fatal("usage: kp gennaro|orstep|full|worker ...")
	}
	cmd := os.Args[1]
	os.Args = append(os.Args[:1], os.Args[2:]...)
	if cmd == "worker" {
		workerMain()
		return
	}
	a := hx.ParseArgs()
	res := hx.NewResult()
	if cmd == "zeroforge" {
		zeroforge(a, res)
		res.Write(a.Out)
		return
	}
	in := readInput(a.In)
	switch cmd {
	case "gennaro":
		gennaro(a, in, res)
	case "orstep":
		orstep(a, in, res)
	case "full":
		full(a, in, res)
	default:
		hx.Fatal("unknown subcommand %s", cmd)
	}
	res.Write(a.Out)
}

// ---------------------------------------------------------------- conversions

func G(x *gobig.Int) *big.Int { return big.Convert(new(gobig.Int).Set(x)) }

func GL(xs []*gobig.Int) []*big.Int {
	out := make([]*big.Int, len(xs))
	for i, x := range xs {
		if x != nil {
			out[i] = G(x)
		}
	}
	return out
}

func M(x *big.Int) *gobig.Int { return new(gobig.Int).Set(x.Go()) }

func ML(xs []*big.Int) []*gobig.Int {
	out := make([]*gobig.Int, len(xs))
	for i, x := range xs {
		if x != nil {
			out[i] = M(x)
		}
	}
	return out
}

func strs(xs []*gobig.Int) []string {
	out := make([]string, len(xs))
	for i, x := range xs {
		if x == nil {
			out[i] = "nil"
		} else {
			out[i] = x.String()
		}
	}
	return out
}
