package main

import (
	"encoding/json"
	"fmt"
	gobig "math/big"
	mrand "math/rand"

	"verifharness/hx"

	"github.com/privacybydesign/gabi/big"
	"github.com/privacybydesign/gabi/keyproof"
)

// kp zeroforge --in scenarios.ndjson
//
// KeyProofDeps.tla: the re-proving adversary with degenerate commitments. Every scenario (which of the commitments p / N
// are sent as 0 mod the group prime, whether the modulus has a factor that is almost safe but not safe, which bases are
// non-squares) is built for real by the cheating prover keyproof.VerifForgeZeroCommit (tag verif) for each representative
// of 0 (0, GroupPrime, 2*GroupPrime), sent through JSON, and given to the unmodified ValidKeyProofStructure.VerifyProof.
// VIOLATION = acceptance of a proof for a false statement, or a verdict that differs from the specification's.
type kscen struct {
	ZeroP  bool  `json:"zeroP"`
	ZeroN  bool  `json:"zeroN"`
	LieN   bool  `json:"lieN"`
	LieB    []int `json:"lieB"`
	MulFree bool  `json:"mulFree"` // the multipliers of the exponentiation chains of the primality proof are the prover's choice
	Wrap    bool  `json:"wrap"`    // roots of s + j*M (M the group order) for bases that are no squares, genuine modulus
	Trap    bool  `json:"trap"`    // a group prime for which log_g h is known (for the generators 0x41424344^.., 0x494A4B4C^.. of old)
	Accept  bool  `json:"accept"`
}

// a safe prime of 843 bits dividing 0x41424344^30 - 0x494A4B4C^31: for generators that are these fixed integers (to fixed powers)
// reduced modulo the group prime it yields log_g h = 30*0x4D4E4F50 / (31*0x45464748) modulo (P-1)/2
const trapdoorPrime = "32832107495699251718249769110573276177530015308674229108080589840027866790557871391180919381787014300400947692740736102240280361937694068887162589320806578664665007115701821694324502511419850022776152127814806962774858105322527946211259000535178314023407"

func zeroforge(a *hx.Args, res *hx.Result) {
	rng := hx.Rng(a.Seed, "kp-zeroforge")
	var scen []kscen
	for _, l := range hx.ReadNDJSON(a.In) {
		var s kscen
		if err := json.Unmarshal(l, &s); err != nil {
			hx.Fatal("bad scenario: %v", err)
		}
		scen = append(scen, s)
	}
	// a genuine pair of safe-prime halves the library can prove, and an almost-safe factor 2*a^3+1
	bits := 30
	var ga, gb *gobig.Int
	for {
		ga = randPrime(rng, bits, func(p *gobig.Int) bool { return new(gobig.Int).Add(new(gobig.Int).Lsh(p, 1), b1).ProbablyPrime(30) })
		gb = randPrime(rng, bits+2, func(p *gobig.Int) bool { return new(gobig.Int).Add(new(gobig.Int).Lsh(p, 1), b1).ProbablyPrime(30) })
		if keyproof.CanProve(G(ga), G(gb)) {
			break
		}
	}
	// the bad modulus: P = 2*a^3+1 prime with a prime (so (P-1)/2 is composite), Q = 2b+1 safe; it has to pass the Gennaro half
	var ba, bb *gobig.Int
	type badKey struct{ a, b *gobig.Int }
	found := false
	for tries := 0; tries < 200000 && !found; tries++ {
		ba = randPrime(rng, 12+rng.Intn(2), func(p *gobig.Int) bool {
			c := new(gobig.Int).Exp(p, gobig.NewInt(3), nil)
			return c.Lsh(c, 1).Add(c, b1).ProbablyPrime(30)
		})
		bb = randPrime(rng, 36, func(p *gobig.Int) bool { return new(gobig.Int).Add(new(gobig.Int).Lsh(p, 1), b1).ProbablyPrime(30) })
		P := new(gobig.Int).Exp(ba, gobig.NewInt(3), nil)
		P.Lsh(P, 1).Add(P, b1)
		Q := new(gobig.Int).Add(new(gobig.Int).Lsh(bb, 1), b1)
		n := new(gobig.Int).Mul(P, Q)
		// the conditions the Gennaro half enforces on n (n = 5 mod 8, n = 1 mod 3, factors apart modulo 8, halves apart modulo 8)
		if m8(n) == 5 && new(gobig.Int).Mod(n, gobig.NewInt(3)).Int64() == 1 && m8(P) != 1 && m8(Q) != 1 && m8(P) != m8(Q) && m8(ba) != 1 && m8(bb) != 1 && m8(ba) != m8(bb) {
			found = true
		}
	}
	if !found {
		hx.Fatal("no bad modulus of the shape (2a^3+1)(2b+1) found")
	}
	// for the wrap-around forgery: genuine safe primes of 170 bits
	var wa, wb *gobig.Int
	for _, s := range scen {
		if s.Wrap && wa == nil {
			for {
				wa = half(randSafePrime(rng, 170, nil))
				wb = half(randSafePrime(rng, 171, nil))
				if keyproof.CanProve(G(wa), G(wb)) {
					break
				}
			}
		}
	}
	reps := []struct {
		name string
		f    func(gp *big.Int) *big.Int
	}{
		{"0", func(gp *big.Int) *big.Int { return big.NewInt(0) }},
		{"GroupPrime", func(gp *big.Int) *big.Int { return new(big.Int).Set(gp) }},
		{"2*GroupPrime", func(gp *big.Int) *big.Int { return new(big.Int).Lsh(gp, 1) }},
	}
	type job struct {
		s   kscen
		rep int
	}
	var jobs []job
	for _, s := range scen {
		if s.Wrap && a.Tier != "thorough" && len(s.LieB) != 2 {
			continue // (a proof for a modulus of 340 bits takes half a minute: the quick tier runs one of the three)
		}
		if !s.ZeroP && !s.ZeroN {
			jobs = append(jobs, job{s, 0})
			if s.MulFree || s.Wrap || s.Trap {
				jobs = append(jobs, job{s, 1}) // control: the same claims with the committed base powers as multipliers
			}
			continue
		}
		for r := range reps {
			jobs = append(jobs, job{s, r})
		}
	}
	// a public key whose base is not reduced modulo n (a key file may carry b + k*n): the verifier must return a verdict
	{
		P := new(gobig.Int).Add(new(gobig.Int).Lsh(ga, 1), b1)
		Q := new(gobig.Int).Add(new(gobig.Int).Lsh(gb, 1), b1)
		n := new(gobig.Int).Mul(P, Q)
		sq := gobig.NewInt(36)
		big36 := new(gobig.Int).Add(sq, new(gobig.Int).Lsh(n, 600))
		res.Eval("unreduced-base")
		var ok1, ok2 bool
		panicked, msg := hx.Try(func() {
			st := keyproof.NewValidKeyProofStructure(G(n), []*big.Int{G(sq)})
			proof := st.BuildProof(G(ga), G(gb))
			ok1 = st.VerifyProof(proof)
			v := keyproof.NewValidKeyProofStructure(G(n), []*big.Int{G(big36)})
			ok2 = v.VerifyProof(proof)
		})
		switch {
		case panicked:
			res.Violation("keyproof-panic", "VerifyProof panicked for a public key with a base that is not reduced modulo n: "+msg, hx.M{"base": "36 + n*2^600"})
		case !ok1:
			res.Violation("honest-key-proof-rejected", "the honest proof does not verify", hx.M{})
		default:
			res.Count(fmt.Sprintf("unreduced-base:accepted=%v", ok2))
		}
	}
	// an honest proof must not tell the real branch of an exponentiation step from the simulated one: if it does, the bits of
	// the secret exponent (p'-1)/2 can be read off it
	{
		P := new(gobig.Int).Add(new(gobig.Int).Lsh(ga, 1), b1)
		Q := new(gobig.Int).Add(new(gobig.Int).Lsh(gb, 1), b1)
		n := new(gobig.Int).Mul(P, Q)
		res.Eval("exponent-bit-leak")
		var leaked []string
		panicked, msg := hx.Try(func() {
			st := keyproof.NewValidKeyProofStructure(G(n), []*big.Int{big.NewInt(36), big.NewInt(49)})
			built := st.BuildProof(G(ga), G(gb))
			bts, err := json.Marshal(built)
			if err != nil {
				hx.Fatal("marshal: %v", err)
			}
			var proof keyproof.ValidKeyProof
			if err := json.Unmarshal(bts, &proof); err != nil {
				hx.Fatal("unmarshal: %v", err)
			}
			for name, pp := range map[string]keyproof.PrimeProof{"pprime": proof.PprimeIsPrimeProof, "qprime": proof.QprimeIsPrimeProof} {
				for ename, exp := range map[string]keyproof.ExpProof{"a": pp.AExpProof, "aneg": pp.AnegExpProof} {
					// the distinguisher: is the multiplier of step i sent as a copy of the base power commitment?
					h := new(gobig.Int)
					for i := range exp.InterStepsProofs {
						if exp.InterStepsProofs[i].Bproof.Mul.Commit.Cmp(exp.BasePowProofs[i].Commit) == 0 {
							h.SetBit(h, i, 1)
						}
					}
					cand := new(gobig.Int).Add(new(gobig.Int).Lsh(h, 2), gobig.NewInt(3)) // p = 2(2h+1)+1
					if cand.Cmp(b1) > 0 && cand.Cmp(n) < 0 && new(gobig.Int).Mod(n, cand).Sign() == 0 {
						leaked = append(leaked, name+"/"+ename)
					}
				}
			}
		})
		switch {
		case panicked:
			res.Violation("keyproof-panic", "building an honest key proof panicked: "+msg, hx.M{})
		case len(leaked) > 0:
			res.Violation("key-proof-reveals-factor", fmt.Sprintf("an honest ValidKeyProof (after JSON) reveals a factor of n: in the exponentiation proofs %v the real branch of every step is recognisable (Bproof.Mul.Commit equals BasePowProofs[i].Commit exactly for the 1 bits of the exponent (p'-1)/2)", leaked), hx.M{"n": n.String()})
		default:
			res.Count("exponent-bit-leak:none")
		}
	}
	seeds := make([]int64, len(jobs))
	for i := range seeds {
		seeds[i] = rng.Int63()
	}
	hx.Parallel(len(jobs), func(ji int) {
		j := jobs[ji]
		s := j.s
		r := mrand.New(mrand.NewSource(seeds[ji]))
		av, e, bv := ga, 1, gb
		if s.LieN {
			av, e, bv = ba, 3, bb
		}
		if s.Wrap {
			av, bv = wa, wb // a genuine safe-prime product of 340 bits: the quotient of the wrapped relation must fit its range proof, which needs |n| above about 300
		}
		P := new(gobig.Int).Exp(av, gobig.NewInt(int64(e)), nil)
		P.Lsh(P, 1).Add(P, b1)
		Q := new(gobig.Int).Add(new(gobig.Int).Lsh(bv, 1), b1)
		n := new(gobig.Int).Mul(P, Q)
		// two bases: squares, except the ones the scenario lies about (Jacobi symbol -1: certainly no square)
		lie := map[int]bool{}
		for _, k := range s.LieB {
			lie[k] = true
		}
		var bases, roots []*big.Int
		for k := 1; k <= 2; k++ {
			root := new(gobig.Int).Add(randBelow(r, n), b1)
			if lie[k] {
				x := new(gobig.Int).Add(randBelow(r, n), gobig.NewInt(2))
				for gobig.Jacobi(x, n) != -1 {
					x.Add(x, b1)
				}
				bases = append(bases, G(x))
			} else {
				bases = append(bases, G(new(gobig.Int).Mod(new(gobig.Int).Mul(root, root), n)))
			}
			roots = append(roots, G(root))
		}
		label := fmt.Sprintf("zeroP=%v zeroN=%v lieN=%v lieB=%v rep=%s", s.ZeroP, s.ZeroN, s.LieN, s.LieB, reps[j.rep].name)
		if s.MulFree {
			label = fmt.Sprintf("composite (P-1)/2 committed honestly, free multipliers=%v", j.rep == 0)
		}
		if s.Wrap {
			label = fmt.Sprintf("genuine modulus of %d bits, non-square bases %v, roots modulo the group order=%v", n.BitLen(), s.LieB, j.rep == 0)
		}
		if s.Trap {
			label = fmt.Sprintf("group prime with known log_g h for the fixed generators, unrelated prime committed as (p-1)/2, relation adjusted=%v", j.rep == 0)
		}
		res.Eval(label)
		det := hx.M{"scenario": s, "representative": reps[j.rep].name, "n": n.String(), "P": P.String(), "Q": Q.String()}
		var accepted bool
		var berr error
		panicked, msg := hx.Try(func() {
			var proof keyproof.ValidKeyProof
			if s.Wrap {
				st := keyproof.NewValidKeyProofStructure(G(n), bases)
				gp := keyproof.VerifFindSafePrime(n.BitLen() + 2*keyproof.VerifRangeProofEpsilon + 10) // as the honest prover chooses it
				proof, _, berr = keyproof.VerifForgeSquareWrap(&st, gp, G(av), G(bv), j.rep == 0)
				if berr != nil {
					return
				}
			} else if s.Trap {
				P, _ := new(gobig.Int).SetString(trapdoorPrime, 10)
				q := new(gobig.Int).Rsh(P, 1)
				td := new(gobig.Int).Mul(gobig.NewInt(30), gobig.NewInt(0x4D4E4F50))
				td.Mul(td, new(gobig.Int).ModInverse(new(gobig.Int).Mul(gobig.NewInt(31), gobig.NewInt(0x45464748)), q)).Mod(td, q)
				fake := new(gobig.Int).Exp(av, gobig.NewInt(3), nil)
				for fake.Add(fake, b1); !fake.ProbablyPrime(30); fake.Add(fake, b1) {
				}
				var tdp *big.Int
				if j.rep == 0 {
					tdp = G(td)
				}
				proof, _, berr = keyproof.VerifForgeTrapdoorGroup(G(P), tdp, G(av), e, G(bv), G(fake), bases)
				if berr != nil {
					return
				}
			} else if s.MulFree {
				var ok bool
				if proof, ok = keyproof.VerifForgeFreeMultipliers(G(av), e, G(bv), bases, j.rep == 0); !ok {
					berr = fmt.Errorf("no answerable ASPP challenge")
					return
				}
			} else if !s.ZeroP && !s.ZeroN {
				st := keyproof.NewValidKeyProofStructure(G(n), bases)
				proof = st.BuildProof(G(av), G(bv))
			} else {
				// the values committed to as (p-1)/2 and (q-1)/2: the true halves for a genuine modulus, unrelated primes otherwise
				pp, qq := av, bv
				if s.LieN {
					half := (n.BitLen() + 1) / 2
					pp = randPrime(r, half-2, func(*gobig.Int) bool { return true })
					qq = randPrime(r, half-2, func(*gobig.Int) bool { return true })
				}
				proof, _, berr = keyproof.VerifForgeZeroCommit(G(av), e, G(bv), bases, roots, G(pp), G(qq), s.ZeroP, s.ZeroN, reps[j.rep].f)
				if berr != nil {
					return
				}
			}
			bts, err := json.Marshal(proof)
			if err != nil {
				berr = err
				return
			}
			var received keyproof.ValidKeyProof
			if err := json.Unmarshal(bts, &received); err != nil {
				berr = err
				return
			}
			verifier := keyproof.NewValidKeyProofStructure(G(n), bases)
			accepted = verifier.VerifyProof(received)
		})
		res.Count(fmt.Sprintf("zeroforge:spec=%v:code=%v", s.Accept, accepted))
		switch {
		case panicked:
			res.Violation("keyproof-panic", "building or verifying "+label+" panicked: "+msg, det)
		case berr != nil:
			hx.Fatal("cheating prover failed for %s: %v", label, berr)
		case accepted && s.Wrap && j.rep == 0:
			det["cause"] = "group-order-too-small-for-squares-of-n-bit-roots"
			res.Violation("non-square-bases-accepted-by-wrap-around", "ValidKeyProof accepted for a genuine modulus and base(s) that are no squares: "+label, det)
		case accepted && (s.LieN || len(s.LieB) > 0):
			res.Violation("key-proof-accepted-for-bad-key", "ValidKeyProof accepted for "+map[bool]string{true: "a modulus with a factor that is no safe prime", false: "a genuine modulus"}[s.LieN]+
				fmt.Sprintf(" and %d base(s) that are no squares (%s)", len(s.LieB), label), det)
		case accepted != s.Accept:
			res.Violation("key-proof-verdict-diverges", fmt.Sprintf("specification %v, code %v for %s", s.Accept, accepted, label), det)
		default:
			if ji < 2 {
				res.Sample(hx.M{"scenario": s, "accepted": accepted})
			}
		}
	})
}
