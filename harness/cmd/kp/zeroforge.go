package main

import (
	"encoding/json"
	"fmt"
	gobig "math/big"
	mrand "math/rand"
	"reflect"
	"sort"
	"strings"

	"verifharness/hx"

	"github.com/privacybydesign/gabi/big"
	"github.com/privacybydesign/gabi/keyproof"
)

// kp zeroforge --in scenarios.ndjson
//
// KeyProofDeps.tla: the re-proving adversary with degenerate commitments. Every scenario (which of the commitments p / N
// are sent as 0 mod the group prime, whether the modulus has a factor that is almost safe but not safe, which bases are
// non-squares) is built for real by the cheating prover keyproof.VerifForgeZeroCommit (tag verif) for each representative
// of 0 (0, GroupPrime, 2*GroupPrime), sent through JSON, and given to the unmodified ValidKeyProofStructure.VerifyProof.
// VIOLATION = acceptance of a proof for a false statement, or a verdict that differs from the specification's.
type kscen struct {
	ZeroP  bool  `json:"zeroP"`
	ZeroN  bool  `json:"zeroN"`
	LieN   bool  `json:"lieN"`
	LieB    []int `json:"lieB"`
	MulFree bool  `json:"mulFree"` // the multipliers of the exponentiation chains of the primality proof are the prover's choice
	Wrap    bool  `json:"wrap"`    // roots of s + j*M (M the group order) for bases that are no squares, genuine modulus
	Trap    bool  `json:"trap"`    // a group prime for which log_g h is known (for the generators 0x41424344^.., 0x494A4B4C^.. of old)
	Accept  bool  `json:"accept"`
	// a record of KeyProofView.tla instead of a scenario: the buckets floor(x / 2^(l2+eps)) of the range-proof results of the
	// 'bit = 1' branch of an exponentiation step, as the specification has them for a step whose exponent bit is Bit
	View    bool  `json:"view"`
	Bit     int   `json:"bit"`
	Buckets []int `json:"buckets"`
}

// a safe prime of 843 bits dividing 0x41424344^30 - 0x494A4B4C^31: for generators that are these fixed integers (to fixed powers)
// reduced modulo the group prime it yields log_g h = 30*0x4D4E4F50 / (31*0x45464748) modulo (P-1)/2
const trapdoorPrime = "32832107495699251718249769110573276177530015308674229108080589840027866790557871391180919381787014300400947692740736102240280361937694068887162589320806578664665007115701821694324502511419850022776152127814806962774858105322527946211259000535178314023407"

func zeroforge(a *hx.Args, res *hx.Result) {
	rng := hx.Rng(a.Seed, "kp-zeroforge")
	var scen []kscen
	specView := map[int]string{}
	for _, l := range hx.ReadNDJSON(a.In) {
		var s kscen
		if err := json.Unmarshal(l, &s); err != nil {
			hx.Fatal("bad scenario: %v", err)
		}
		if s.View {
			var bs []string
			for _, b := range s.Buckets {
				bs = append(bs, fmt.Sprint(b))
			}
			specView[s.Bit] = strings.Join(bs, ",")
			continue
		}
		scen = append(scen, s)
	}
	// a genuine pair of safe-prime halves the library can prove, and an almost-safe factor 2*a^3+1
	bits := 30
	var ga, gb *gobig.Int
	for {
		ga = randPrime(rng, bits, func(p *gobig.Int) bool { return new(gobig.Int).Add(new(gobig.Int).Lsh(p, 1), b1).ProbablyPrime(30) })
		gb = randPrime(rng, bits+2, func(p *gobig.Int) bool { return new(gobig.Int).Add(new(gobig.Int).Lsh(p, 1), b1).ProbablyPrime(30) })
		if keyproof.CanProve(G(ga), G(gb)) {
			break
		}
	}
	// the bad modulus: P = 2*a^3+1 prime with a prime (so (P-1)/2 is composite), Q = 2b+1 safe; it has to pass the Gennaro half
	var ba, bb *gobig.Int
	type badKey struct{ a, b *gobig.Int }
	found := false
	for tries := 0; tries < 200000 && !found; tries++ {
		ba = randPrime(rng, 12+rng.Intn(2), func(p *gobig.Int) bool {
			c := new(gobig.Int).Exp(p, gobig.NewInt(3), nil)
			return c.Lsh(c, 1).Add(c, b1).ProbablyPrime(30)
		})
		bb = randPrime(rng, 36, func(p *gobig.Int) bool { return new(gobig.Int).Add(new(gobig.Int).Lsh(p, 1), b1).ProbablyPrime(30) })
		P := new(gobig.Int).Exp(ba, gobig.NewInt(3), nil)
		P.Lsh(P, 1).Add(P, b1)
		Q := new(gobig.Int).Add(new(gobig.Int).Lsh(bb, 1), b1)
		n := new(gobig.Int).Mul(P, Q)
		// the conditions the Gennaro half enforces on n (n = 5 mod 8, n = 1 mod 3, factors apart modulo 8, halves apart modulo 8)
		if m8(n) == 5 && new(gobig.Int).Mod(n, gobig.NewInt(3)).Int64() == 1 && m8(P) != 1 && m8(Q) != 1 && m8(P) != m8(Q) && m8(ba) != 1 && m8(bb) != 1 && m8(ba) != m8(bb) {
			found = true
		}
	}
	if !found {
		hx.Fatal("no bad modulus of the shape (2a^3+1)(2b+1) found")
	}
	// for the wrap-around forgery: genuine safe primes of 170 bits
	var wa, wb *gobig.Int
	for _, s := range scen {
		if s.Wrap && wa == nil {
			for {
				wa = half(randSafePrime(rng, 170, nil))
				wb = half(randSafePrime(rng, 171, nil))
				if keyproof.CanProve(G(wa), G(wb)) {
					break
				}
			}
		}
	}
	reps := []struct {
		name string
		f    func(gp *big.Int) *big.Int
	}{
		{"0", func(gp *big.Int) *big.Int { return big.NewInt(0) }},
		{"GroupPrime", func(gp *big.Int) *big.Int { return new(big.Int).Set(gp) }},
		{"2*GroupPrime", func(gp *big.Int) *big.Int { return new(big.Int).Lsh(gp, 1) }},
	}
	type job struct {
		s   kscen
		rep int
	}
	var jobs []job
	for _, s := range scen {
		if s.Wrap && a.Tier != "thorough" && len(s.LieB) != 2 {
			continue // (a proof for a modulus of 340 bits takes half a minute: the quick tier runs one of the three)
		}
		if !s.ZeroP && !s.ZeroN {
			jobs = append(jobs, job{s, 0})
			if s.MulFree || s.Wrap || s.Trap {
				jobs = append(jobs, job{s, 1}) // control: the same claims with the committed base powers as multipliers
			}
			continue
		}
		for r := range reps {
			jobs = append(jobs, job{s, r})
		}
	}
	// a public key whose base is not reduced modulo n (a key file may carry b + k*n): the verifier must return a verdict
	{
		P := new(gobig.Int).Add(new(gobig.Int).Lsh(ga, 1), b1)
		Q := new(gobig.Int).Add(new(gobig.Int).Lsh(gb, 1), b1)
		n := new(gobig.Int).Mul(P, Q)
		sq := gobig.NewInt(36)
		big36 := new(gobig.Int).Add(sq, new(gobig.Int).Lsh(n, 600))
		res.Eval("unreduced-base")
		var ok1, ok2 bool
		panicked, msg := hx.Try(func() {
			st := keyproof.NewValidKeyProofStructure(G(n), []*big.Int{G(sq)})
			proof := st.BuildProof(G(ga), G(gb))
			ok1 = st.VerifyProof(proof)
			v := keyproof.NewValidKeyProofStructure(G(n), []*big.Int{G(big36)})
			ok2 = v.VerifyProof(proof)
		})
		switch {
		case panicked:
			res.Violation("keyproof-panic", "VerifyProof panicked for a public key with a base that is not reduced modulo n: "+msg, hx.M{"base": "36 + n*2^600"})
		case !ok1:
			res.Violation("honest-key-proof-rejected", "the honest proof does not verify", hx.M{})
		default:
			res.Count(fmt.Sprintf("unreduced-base:accepted=%v", ok2))
		}
	}
	// an honest proof must not tell the real branch of an exponentiation step from the simulated one: if it does, the bits of
	// the secret exponent (p'-1)/2 can be read off it
	{
		P := new(gobig.Int).Add(new(gobig.Int).Lsh(ga, 1), b1)
		Q := new(gobig.Int).Add(new(gobig.Int).Lsh(gb, 1), b1)
		n := new(gobig.Int).Mul(P, Q)
		res.Eval("exponent-bit-leak")
		var leaked []string
		var viewLeaks []string
		buckets := map[int]map[int64]bool{0: {}, 1: {}}
		panicked, msg := hx.Try(func() {
			build := func() keyproof.ValidKeyProof {
				st := keyproof.NewValidKeyProofStructure(G(n), []*big.Int{big.NewInt(36), big.NewInt(49)})
				built := st.BuildProof(G(ga), G(gb))
				bts, err := json.Marshal(built)
				if err != nil {
					hx.Fatal("marshal: %v", err)
				}
				var proof keyproof.ValidKeyProof
				if err := json.Unmarshal(bts, &proof); err != nil {
					hx.Fatal("unmarshal: %v", err)
				}
				return proof
			}
			proof, proof2 := build(), build()
			// W = 2^(l2+eps) of the range proofs inside the multiplication proofs (KeyProofView.tla) is taken from the proof itself: the
			// largest result of all steps has l2+eps+2 bits (real results reach up to 3W), whatever the parameters of the range proof are
			var results [2][]*gobig.Int
			for _, name := range []string{"pprime", "qprime"} {
				pp, pp2, secretPrime := proof.PprimeIsPrimeProof, proof2.PprimeIsPrimeProof, ga
				if name == "qprime" {
					pp, pp2, secretPrime = proof.QprimeIsPrimeProof, proof2.QprimeIsPrimeProof, gb
				}
				trueExp := new(gobig.Int).Rsh(secretPrime, 1) // (p'-1)/2
				for _, ename := range []string{"a", "aneg"} {
					exp, exp2 := pp.AExpProof, pp2.AExpProof
					if ename == "aneg" {
						exp, exp2 = pp.AnegExpProof, pp2.AnegExpProof
					}
					// the distinguisher of D53: is the multiplier of step i sent as a copy of the base power commitment?
					h := new(gobig.Int)
					for i := range exp.InterStepsProofs {
						if exp.InterStepsProofs[i].Bproof.Mul.Commit.Cmp(exp.BasePowProofs[i].Commit) == 0 {
							h.SetBit(h, i, 1)
						}
					}
					if isFactor(h, n) {
						leaked = append(leaked, name+"/"+ename)
					}
					// the buckets of KeyProofView.tla: the branch 'bit = 1' of step i is real iff bit i of the exponent is 1
					for i := range exp.InterStepsProofs {
						bit := int(trueExp.Bit(i))
						walkLeaves(reflect.ValueOf(exp.InterStepsProofs[i].Bproof.MultiplicationProof.RangeProof.Results), "", func(path string, x *gobig.Int) {
							if !strings.Contains(path, "_hider") {
								results[bit] = append(results[bit], x)
							}
						})
					}
					// the generic distinguisher: every leaf of the step proofs, by path, with the smallest and the largest bit length
					// per step. A feature whose values over the steps with bit 0 and over those with bit 1 of the FIRST proof do not
					// overlap is a candidate; it counts if, applied to the SECOND proof with the threshold learnt from the first and
					// without any secret, it yields a factor of n (D59: the range-proof results of the simulated branch)
					f1 := stepFeatures(exp)
					var keys []string
					for k := range f1 {
						keys = append(keys, k)
					}
					sort.Strings(keys)
					for _, key := range keys {
						lo, hi := [2]int{1 << 30, 1 << 30}, [2]int{-1, -1}
						cnt := [2]int{}
						for i, v := range f1[key] {
							bit := int(trueExp.Bit(i))
							cnt[bit]++
							lo[bit], hi[bit] = min(lo[bit], v), max(hi[bit], v)
						}
						if cnt[0] < 4 || cnt[1] < 4 || !(hi[0] < lo[1] || hi[1] < lo[0]) {
							continue
						}
						oneIsHigh := hi[0] < lo[1]
						thr := lo[1]
						if !oneIsHigh {
							thr = lo[0]
						}
						h2 := new(gobig.Int)
						for i, v := range stepFeatures(exp2)[key] {
							if (v >= thr) == oneIsHigh {
								h2.SetBit(h2, i, 1)
							}
						}
						if isFactor(h2, n) {
							viewLeaks = append(viewLeaks, fmt.Sprintf("%s/%s: %s (bit 0: %d..%d bits, bit 1: %d..%d bits)", name, ename, key, lo[0], hi[0], lo[1], hi[1]))
						}
					}
				}
			}
			maxBits := 0
			for bit := 0; bit <= 1; bit++ {
				for _, x := range results[bit] {
					maxBits = max(maxBits, x.BitLen())
				}
			}
			if maxBits > 2 {
				for bit := 0; bit <= 1; bit++ {
					for _, x := range results[bit] {
						buckets[bit][new(gobig.Int).Rsh(x, uint(maxBits-2)).Int64()] = true
					}
				}
			}
		})
		for bit := 0; bit <= 1; bit++ {
			var bs []string
			for b := int64(0); b < 8; b++ {
				if buckets[bit][b] {
					bs = append(bs, fmt.Sprint(b))
				}
			}
			res.Count(fmt.Sprintf("view:bit=%d:buckets=%s", bit, strings.Join(bs, ",")))
			if want, ok := specView[bit]; ok && !panicked && want != strings.Join(bs, ",") {
				res.Violation("view-differs-from-specification", fmt.Sprintf("the range-proof results of the 'bit = 1' branch of the exponentiation steps whose exponent bit is %d fall into the buckets {%s} of width 2^(l2+eps); the specification (KeyProofView.tla) has {%s} for both bits", bit, strings.Join(bs, ","), want), hx.M{"n": n.String(), "bit": bit})
			}
		}
		switch {
		case panicked:
			res.Violation("keyproof-panic", "building an honest key proof panicked: "+msg, hx.M{})
		case len(leaked) > 0:
			res.Violation("key-proof-reveals-factor", fmt.Sprintf("an honest ValidKeyProof (after JSON) reveals a factor of n: in the exponentiation proofs %v the real branch of every step is recognisable (Bproof.Mul.Commit equals BasePowProofs[i].Commit exactly for the 1 bits of the exponent (p'-1)/2)", leaked), hx.M{"n": n.String()})
		case len(viewLeaks) > 0:
			if len(viewLeaks) > 6 {
				viewLeaks = viewLeaks[:6]
			}
			res.Violation("key-proof-reveals-factor", fmt.Sprintf("an honest ValidKeyProof (after JSON) reveals a factor of n: a published component of the exponentiation steps has a size that depends on whether its branch is real or simulated; the threshold learnt on one proof, applied to another proof of the key without any secret, gives the bits of (p'-1)/2 and so p: %v", viewLeaks), hx.M{"n": n.String()})
		default:
			res.Count("exponent-bit-leak:none")
		}
	}
	seeds := make([]int64, len(jobs))
	for i := range seeds {
		seeds[i] = rng.Int63()
	}
	hx.Parallel(len(jobs), func(ji int) {
		j := jobs[ji]
		s := j.s
		r := mrand.New(mrand.NewSource(seeds[ji]))
		av, e, bv := ga, 1, gb
		if s.LieN {
			av, e, bv = ba, 3, bb
		}
		if s.Wrap {
			av, bv = wa, wb // a genuine safe-prime product of 340 bits: the quotient of the wrapped relation must fit its range proof, which needs |n| above about 300
		}
		P := new(gobig.Int).Exp(av, gobig.NewInt(int64(e)), nil)
		P.Lsh(P, 1).Add(P, b1)
		Q := new(gobig.Int).Add(new(gobig.Int).Lsh(bv, 1), b1)
		n := new(gobig.Int).Mul(P, Q)
		// two bases: squares, except the ones the scenario lies about (Jacobi symbol -1: certainly no square)
		lie := map[int]bool{}
		for _, k := range s.LieB {
			lie[k] = true
		}
		var bases, roots []*big.Int
		for k := 1; k <= 2; k++ {
			root := new(gobig.Int).Add(randBelow(r, n), b1)
			if lie[k] {
				x := new(gobig.Int).Add(randBelow(r, n), gobig.NewInt(2))
				for gobig.Jacobi(x, n) != -1 {
					x.Add(x, b1)
				}
				bases = append(bases, G(x))
			} else {
				bases = append(bases, G(new(gobig.Int).Mod(new(gobig.Int).Mul(root, root), n)))
			}
			roots = append(roots, G(root))
		}
		label := fmt.Sprintf("zeroP=%v zeroN=%v lieN=%v lieB=%v rep=%s", s.ZeroP, s.ZeroN, s.LieN, s.LieB, reps[j.rep].name)
		if s.MulFree {
			label = fmt.Sprintf("composite (P-1)/2 committed honestly, free multipliers=%v", j.rep == 0)
		}
		if s.Wrap {
			label = fmt.Sprintf("genuine modulus of %d bits, non-square bases %v, roots modulo the group order=%v", n.BitLen(), s.LieB, j.rep == 0)
		}
		if s.Trap {
			label = fmt.Sprintf("group prime with known log_g h for the fixed generators, unrelated prime committed as (p-1)/2, relation adjusted=%v", j.rep == 0)
		}
		res.Eval(label)
		det := hx.M{"scenario": s, "representative": reps[j.rep].name, "n": n.String(), "P": P.String(), "Q": Q.String()}
		var accepted bool
		var berr error
		panicked, msg := hx.Try(func() {
			var proof keyproof.ValidKeyProof
			if s.Wrap {
				st := keyproof.NewValidKeyProofStructure(G(n), bases)
				gp := keyproof.VerifFindSafePrime(n.BitLen() + 2*keyproof.VerifRangeProofEpsilon + 10) // as the honest prover chooses it
				proof, _, berr = keyproof.VerifForgeSquareWrap(&st, gp, G(av), G(bv), j.rep == 0)
				if berr != nil {
					return
				}
			} else if s.Trap {
				P, _ := new(gobig.Int).SetString(trapdoorPrime, 10)
				q := new(gobig.Int).Rsh(P, 1)
				td := new(gobig.Int).Mul(gobig.NewInt(30), gobig.NewInt(0x4D4E4F50))
				td.Mul(td, new(gobig.Int).ModInverse(new(gobig.Int).Mul(gobig.NewInt(31), gobig.NewInt(0x45464748)), q)).Mod(td, q)
				fake := new(gobig.Int).Exp(av, gobig.NewInt(3), nil)
				for fake.Add(fake, b1); !fake.ProbablyPrime(30); fake.Add(fake, b1) {
				}
				var tdp *big.Int
				if j.rep == 0 {
					tdp = G(td)
				}
				proof, _, berr = keyproof.VerifForgeTrapdoorGroup(G(P), tdp, G(av), e, G(bv), G(fake), bases)
				if berr != nil {
					return
				}
			} else if s.MulFree {
				var ok bool
				if proof, ok = keyproof.VerifForgeFreeMultipliers(G(av), e, G(bv), bases, j.rep == 0); !ok {
					berr = fmt.Errorf("no answerable ASPP challenge")
					return
				}
			} else if !s.ZeroP && !s.ZeroN {
				st := keyproof.NewValidKeyProofStructure(G(n), bases)
				proof = st.BuildProof(G(av), G(bv))
			} else {
				// the values committed to as (p-1)/2 and (q-1)/2: the true halves for a genuine modulus, unrelated primes otherwise
				pp, qq := av, bv
				if s.LieN {
					half := (n.BitLen() + 1) / 2
					pp = randPrime(r, half-2, func(*gobig.Int) bool { return true })
					qq = randPrime(r, half-2, func(*gobig.Int) bool { return true })
				}
				proof, _, berr = keyproof.VerifForgeZeroCommit(G(av), e, G(bv), bases, roots, G(pp), G(qq), s.ZeroP, s.ZeroN, reps[j.rep].f)
				if berr != nil {
					return
				}
			}
			bts, err := json.Marshal(proof)
			if err != nil {
				berr = err
				return
			}
			var received keyproof.ValidKeyProof
			if err := json.Unmarshal(bts, &received); err != nil {
				berr = err
				return
			}
			verifier := keyproof.NewValidKeyProofStructure(G(n), bases)
			accepted = verifier.VerifyProof(received)
		})
		res.Count(fmt.Sprintf("zeroforge:spec=%v:code=%v", s.Accept, accepted))
		switch {
		case panicked:
			res.Violation("keyproof-panic", "building or verifying "+label+" panicked: "+msg, det)
		case berr != nil:
			hx.Fatal("cheating prover failed for %s: %v", label, berr)
		case accepted && s.Wrap && j.rep == 0:
			det["cause"] = "group-order-too-small-for-squares-of-n-bit-roots"
			res.Violation("non-square-bases-accepted-by-wrap-around", "ValidKeyProof accepted for a genuine modulus and base(s) that are no squares: "+label, det)
		case accepted && (s.LieN || len(s.LieB) > 0):
			res.Violation("key-proof-accepted-for-bad-key", "ValidKeyProof accepted for "+map[bool]string{true: "a modulus with a factor that is no safe prime", false: "a genuine modulus"}[s.LieN]+
				fmt.Sprintf(" and %d base(s) that are no squares (%s)", len(s.LieB), label), det)
		case accepted != s.Accept:
			res.Violation("key-proof-verdict-diverges", fmt.Sprintf("specification %v, code %v for %s", s.Accept, accepted, label), det)
		default:
			if ji < 2 {
				res.Sample(hx.M{"scenario": s, "accepted": accepted})
			}
		}
	})
}

// isFactor reports whether 4h+3 (p = 2p'+1 with p' = 2h+1) is a proper factor of n
func isFactor(h, n *gobig.Int) bool {
	cand := new(gobig.Int).Add(new(gobig.Int).Lsh(h, 2), gobig.NewInt(3))
	return cand.Cmp(b1) > 0 && cand.Cmp(n) < 0 && new(gobig.Int).Mod(n, cand).Sign() == 0
}

// stepFeatures: for every leaf path of the step proofs of an exponentiation proof, the smallest (#min) and the largest (#max)
// bit length among the integers at that path, per step
func stepFeatures(exp keyproof.ExpProof) map[string][]int {
	out := map[string][]int{}
	for i := range exp.InterStepsProofs {
		lo, hi := map[string]int{}, map[string]int{}
		walkLeaves(reflect.ValueOf(exp.InterStepsProofs[i]), "", func(path string, x *gobig.Int) {
			l := x.BitLen()
			if v, ok := lo[path]; !ok || l < v {
				lo[path] = l
			}
			if v, ok := hi[path]; !ok || l > v {
				hi[path] = l
			}
		})
		for pth, v := range lo {
			if out[pth+"#min"] == nil {
				out[pth+"#min"] = make([]int, len(exp.InterStepsProofs))
			}
			out[pth+"#min"][i] = v
			if out[pth+"#max"] == nil {
				out[pth+"#max"] = make([]int, len(exp.InterStepsProofs))
			}
			out[pth+"#max"][i] = hi[pth]
		}
	}
	return out
}

// walkLeaves calls f for every integer in v (a proof tree of structs, maps, slices and pointers), with the path of field names
// and map keys leading to it (slice indices are left out, so that the elements of a list share a path)
func walkLeaves(v reflect.Value, path string, f func(path string, x *gobig.Int)) {
	switch v.Kind() {
	case reflect.Ptr, reflect.Interface:
		if v.IsNil() {
			return
		}
		if b, ok := v.Interface().(*big.Int); ok {
			f(path, b.Go())
			return
		}
		if b, ok := v.Interface().(*gobig.Int); ok {
			f(path, b)
			return
		}
		walkLeaves(v.Elem(), path, f)
	case reflect.Struct:
		for i := 0; i < v.NumField(); i++ {
			if !v.Type().Field(i).IsExported() {
				continue
			}
			walkLeaves(v.Field(i), path+"."+v.Type().Field(i).Name, f)
		}
	case reflect.Slice, reflect.Array:
		for i := 0; i < v.Len(); i++ {
			walkLeaves(v.Index(i), path, f)
		}
	case reflect.Map:
		keys := v.MapKeys()
		sort.Slice(keys, func(i, j int) bool { return fmt.Sprint(keys[i]) < fmt.Sprint(keys[j]) })
		for _, k := range keys {
			name := fmt.Sprint(k)
			// the names of secrets carry the index of the step: strip digits so that steps share paths
			name = strings.Map(func(r rune) rune {
				if r >= '0' && r <= '9' {
					return -1
				}
				return r
			}, name)
			walkLeaves(v.MapIndex(k), path+"["+name+"]", f)
		}
	}
}
