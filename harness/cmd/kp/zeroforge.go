package main

import (
	"encoding/json"
	"fmt"
	gobig "math/big"
	mrand "math/rand"

	"verifharness/hx"

	"github.com/privacybydesign/gabi/big"
	"github.com/privacybydesign/gabi/keyproof"
)

// kp zeroforge --in scenarios.ndjson
//
// KeyProofDeps.tla: the re-proving adversary with degenerate commitments. Every scenario (which of the commitments p / N
// are sent as 0 mod the group prime, whether the modulus has a factor that is almost safe but not safe, which bases are
// non-squares) is built for real by the cheating prover keyproof.VerifForgeZeroCommit (tag verif) for each representative
// of 0 (0, GroupPrime, 2*GroupPrime), sent through JSON, and given to the unmodified ValidKeyProofStructure.VerifyProof.
// VIOLATION = acceptance of a proof for a false statement, or a verdict that differs from the specification's.
type kscen struct {
	ZeroP  bool  `json:"zeroP"`
	ZeroN  bool  `json:"zeroN"`
	LieN   bool  `json:"lieN"`
	LieB    []int `json:"lieB"`
	MulFree bool  `json:"mulFree"` // the multipliers of the exponentiation chains of the primality proof are the prover's choice
	Accept  bool  `json:"accept"`
}

func zeroforge(a *hx.Args, res *hx.Result) {
	rng := hx.Rng(a.Seed, "kp-zeroforge")
	var scen []kscen
	for _, l := range hx.ReadNDJSON(a.In) {
		var s kscen
		if err := json.Unmarshal(l, &s); err != nil {
			hx.Fatal("bad scenario: %v", err)
		}
		scen = append(scen, s)
	}
	// a genuine pair of safe-prime halves the library can prove, and an almost-safe factor 2*a^3+1
	bits := 30
	var ga, gb *gobig.Int
	for {
		ga = randPrime(rng, bits, func(p *gobig.Int) bool { return new(gobig.Int).Add(new(gobig.Int).Lsh(p, 1), b1).ProbablyPrime(30) })
		gb = randPrime(rng, bits+2, func(p *gobig.Int) bool { return new(gobig.Int).Add(new(gobig.Int).Lsh(p, 1), b1).ProbablyPrime(30) })
		if keyproof.CanProve(G(ga), G(gb)) {
			break
		}
	}
	// the bad modulus: P = 2*a^3+1 prime with a prime (so (P-1)/2 is composite), Q = 2b+1 safe; it has to pass the Gennaro half
	var ba, bb *gobig.Int
	type badKey struct{ a, b *gobig.Int }
	found := false
	for tries := 0; tries < 200000 && !found; tries++ {
		ba = randPrime(rng, 12+rng.Intn(2), func(p *gobig.Int) bool {
			c := new(gobig.Int).Exp(p, gobig.NewInt(3), nil)
			return c.Lsh(c, 1).Add(c, b1).ProbablyPrime(30)
		})
		bb = randPrime(rng, 36, func(p *gobig.Int) bool { return new(gobig.Int).Add(new(gobig.Int).Lsh(p, 1), b1).ProbablyPrime(30) })
		P := new(gobig.Int).Exp(ba, gobig.NewInt(3), nil)
		P.Lsh(P, 1).Add(P, b1)
		Q := new(gobig.Int).Add(new(gobig.Int).Lsh(bb, 1), b1)
		n := new(gobig.Int).Mul(P, Q)
		// the conditions the Gennaro half enforces on n (n = 5 mod 8, n = 1 mod 3, factors apart modulo 8, halves apart modulo 8)
		if m8(n) == 5 && new(gobig.Int).Mod(n, gobig.NewInt(3)).Int64() == 1 && m8(P) != 1 && m8(Q) != 1 && m8(P) != m8(Q) && m8(ba) != 1 && m8(bb) != 1 && m8(ba) != m8(bb) {
			found = true
		}
	}
	if !found {
		hx.Fatal("no bad modulus of the shape (2a^3+1)(2b+1) found")
	}
	reps := []struct {
		name string
		f    func(gp *big.Int) *big.Int
	}{
		{"0", func(gp *big.Int) *big.Int { return big.NewInt(0) }},
		{"GroupPrime", func(gp *big.Int) *big.Int { return new(big.Int).Set(gp) }},
		{"2*GroupPrime", func(gp *big.Int) *big.Int { return new(big.Int).Lsh(gp, 1) }},
	}
	type job struct {
		s   kscen
		rep int
	}
	var jobs []job
	for _, s := range scen {
		if !s.ZeroP && !s.ZeroN {
			jobs = append(jobs, job{s, 0})
			if s.MulFree {
				jobs = append(jobs, job{s, 1}) // control: the same claims with the committed base powers as multipliers
			}
			continue
		}
		for r := range reps {
			jobs = append(jobs, job{s, r})
		}
	}
	seeds := make([]int64, len(jobs))
	for i := range seeds {
		seeds[i] = rng.Int63()
	}
	hx.Parallel(len(jobs), func(ji int) {
		j := jobs[ji]
		s := j.s
		r := mrand.New(mrand.NewSource(seeds[ji]))
		av, e, bv := ga, 1, gb
		if s.LieN {
			av, e, bv = ba, 3, bb
		}
		P := new(gobig.Int).Exp(av, gobig.NewInt(int64(e)), nil)
		P.Lsh(P, 1).Add(P, b1)
		Q := new(gobig.Int).Add(new(gobig.Int).Lsh(bv, 1), b1)
		n := new(gobig.Int).Mul(P, Q)
		// two bases: squares, except the ones the scenario lies about (Jacobi symbol -1: certainly no square)
		lie := map[int]bool{}
		for _, k := range s.LieB {
			lie[k] = true
		}
		var bases, roots []*big.Int
		for k := 1; k <= 2; k++ {
			root := new(gobig.Int).Add(randBelow(r, n), b1)
			if lie[k] {
				x := new(gobig.Int).Add(randBelow(r, n), gobig.NewInt(2))
				for gobig.Jacobi(x, n) != -1 {
					x.Add(x, b1)
				}
				bases = append(bases, G(x))
			} else {
				bases = append(bases, G(new(gobig.Int).Mod(new(gobig.Int).Mul(root, root), n)))
			}
			roots = append(roots, G(root))
		}
		label := fmt.Sprintf("zeroP=%v zeroN=%v lieN=%v lieB=%v rep=%s", s.ZeroP, s.ZeroN, s.LieN, s.LieB, reps[j.rep].name)
		if s.MulFree {
			label = fmt.Sprintf("composite (P-1)/2 committed honestly, free multipliers=%v", j.rep == 0)
		}
		res.Eval(label)
		det := hx.M{"scenario": s, "representative": reps[j.rep].name, "n": n.String(), "P": P.String(), "Q": Q.String()}
		var accepted bool
		var berr error
		panicked, msg := hx.Try(func() {
			var proof keyproof.ValidKeyProof
			if s.MulFree {
				var ok bool
				if proof, ok = keyproof.VerifForgeFreeMultipliers(G(av), e, G(bv), bases, j.rep == 0); !ok {
					berr = fmt.Errorf("no answerable ASPP challenge")
					return
				}
			} else if !s.ZeroP && !s.ZeroN {
				st := keyproof.NewValidKeyProofStructure(G(n), bases)
				proof = st.BuildProof(G(av), G(bv))
			} else {
				// the values committed to as (p-1)/2 and (q-1)/2: the true halves for a genuine modulus, unrelated primes otherwise
				pp, qq := av, bv
				if s.LieN {
					half := (n.BitLen() + 1) / 2
					pp = randPrime(r, half-2, func(*gobig.Int) bool { return true })
					qq = randPrime(r, half-2, func(*gobig.Int) bool { return true })
				}
				proof, _, berr = keyproof.VerifForgeZeroCommit(G(av), e, G(bv), bases, roots, G(pp), G(qq), s.ZeroP, s.ZeroN, reps[j.rep].f)
				if berr != nil {
					return
				}
			}
			bts, err := json.Marshal(proof)
			if err != nil {
				berr = err
				return
			}
			var received keyproof.ValidKeyProof
			if err := json.Unmarshal(bts, &received); err != nil {
				berr = err
				return
			}
			verifier := keyproof.NewValidKeyProofStructure(G(n), bases)
			accepted = verifier.VerifyProof(received)
		})
		res.Count(fmt.Sprintf("zeroforge:spec=%v:code=%v", s.Accept, accepted))
		switch {
		case panicked:
			res.Violation("keyproof-panic", "building or verifying "+label+" panicked: "+msg, det)
		case berr != nil:
			hx.Fatal("cheating prover failed for %s: %v", label, berr)
		case accepted && (s.LieN || len(s.LieB) > 0):
			res.Violation("key-proof-accepted-for-bad-key", "ValidKeyProof accepted for "+map[bool]string{true: "a modulus with a factor that is no safe prime", false: "a genuine modulus"}[s.LieN]+
				fmt.Sprintf(" and %d base(s) that are no squares (%s)", len(s.LieB), label), det)
		case accepted != s.Accept:
			res.Violation("key-proof-verdict-diverges", fmt.Sprintf("specification %v, code %v for %s", s.Accept, accepted, label), det)
		default:
			if ji < 2 {
				res.Sample(hx.M{"scenario": s, "accepted": accepted})
			}
		}
	})
}
