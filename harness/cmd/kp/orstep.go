package main

// kp orstep: the OR composition expStep = expStepA OR expStepB as a component, in the proof group of a real
// key proof: honest proofs with either branch real, every leaf altered, a forgery with both branches simulated.
// Also: the range proof on a secret outside its range (observation, see KeyProof.tla LeafDomain).

import (
	"fmt"
	gobig "math/big"
	mrand "math/rand"
	"reflect"
	"strings"

	"verifharness/hx"

	"github.com/privacybydesign/gabi/big"
	"github.com/privacybydesign/gabi/keyproof"
	"github.com/privacybydesign/gabi/verifx"
	"github.com/privacybydesign/gabi/zkproof"
)

// a committed value: commit = g^v h^hd
type named struct {
	v, hd, commit *gobig.Int
}

type lookups struct {
	m map[string]*named
}

func (l *lookups) Base(name string) *big.Int {
	if x, ok := l.m[name]; ok {
		return G(x.commit)
	}
	return nil
}
func (l *lookups) Exp(ret *big.Int, name string, e, P *big.Int) bool {
	x, ok := l.m[name]
	if !ok {
		return false
	}
	ret.Exp(G(x.commit), e, P)
	return true
}
func (l *lookups) Names() []string {
	var out []string
	for k := range l.m {
		out = append(out, k)
	}
	return out
}
func (l *lookups) Secret(name string) *big.Int {
	if x, ok := l.m[name]; ok {
		return G(x.v)
	}
	if strings.HasSuffix(name, "_hider") {
		if x, ok := l.m[strings.TrimSuffix(name, "_hider")]; ok {
			return G(x.hd)
		}
	}
	return nil
}
func (l *lookups) Randomizer(string) *big.Int { return nil }

func commitTo(g *zkproof.Group, rng *mrand.Rand, v *gobig.Int) *named {
	hd := randBelow(rng, g.Order.Go())
	vv := mod(v, g.Order.Go())
	c := mod(mul(exp(g.G.Go(), vv, g.P.Go()), exp(g.H.Go(), hd, g.P.Go())), g.P.Go())
	return &named{v: v, hd: hd, commit: c}
}

type orSetup struct {
	g      zkproof.Group
	s      keyproof.VerifExpStepStructure
	lk     *lookups
	bases  zkproof.BaseMerge
	bit    int
	bitlen uint
}

func newOrSetup(g zkproof.Group, rng *mrand.Rand, bit int, truth bool) *orSetup {
	const bitlen = 48
	m := randPrime(rng, bitlen, nil)
	pre := randBelow(rng, m)
	mulv := randBelow(rng, m)
	post := cp(pre)
	if bit == 1 {
		post = mod(mul(pre, mulv), m)
	}
	if !truth {
		post = mod(add(post, b1), m)
	}
	lk := &lookups{m: map[string]*named{
		"bit": commitTo(&g, rng, bi(int64(bit))), "pre": commitTo(&g, rng, pre), "post": commitTo(&g, rng, post),
		"mul": commitTo(&g, rng, mulv), "mod": commitTo(&g, rng, m)}}
	o := &orSetup{g: g, lk: lk, bit: bit, bitlen: bitlen}
	o.s = keyproof.VerifNewExpStepStructure("bit", "pre", "post", "mul", "mod", bitlen)
	o.bases = zkproof.NewBaseMerge(&o.g, lk)
	return o
}

func (o *orSetup) honest() (keyproof.ExpStepProof, *gobig.Int) {
	list, commit := keyproof.VerifExpStepCommitmentsFromSecrets(&o.s, o.g, []*big.Int{}, &o.bases, o.lk)
	c := verifx.HashCommit(list, false)
	return keyproof.VerifExpStepBuildProof(&o.s, o.g, c, commit, o.lk), M(c)
}

// the verifier of the component, composed as ValidKeyProofStructure.VerifyProof composes it:
// structure (with the XOR rule) and the hash over the reconstructed commitments
func (o *orSetup) verify(p keyproof.ExpStepProof, c *gobig.Int) string {
	return verdict(func() bool {
		if !keyproof.VerifExpStepVerifyProofStructure(&o.s, G(c), p) {
			return false
		}
		list := keyproof.VerifExpStepCommitmentsFromProof(&o.s, o.g, []*big.Int{}, G(c), &o.bases, p)
		return verifx.HashCommit(list, false).Cmp(G(c)) == 0
	})
}

func orstep(a *hx.Args, in *input, res *hx.Result) {
	thorough := a.Tier == "thorough"
	g, ok := zkproof.BuildGroup(G(sub(pow2(787), bi(7341))))
	if !ok {
		hx.Fatal("proof group")
	}
	// the alteration cases of the specification that live below an expStep node
	type sub struct {
		c    altCase
		tail []string
	}
	var cases []sub
	seen := map[string]bool{}
	for _, c := range in.Alts {
		at := -1
		for i, f := range c.P {
			if f == "InterStepsProofs" {
				at = i
			}
		}
		if at < 0 || (at == len(c.P)-1 && c.K != "orswap" && c.K != "orshiftboth") {
			continue
		}
		tail := c.P[at+1:]
		k := classKey(tail) + "|" + c.K
		if seen[k] {
			continue
		}
		seen[k] = true
		cases = append(cases, sub{c, tail})
	}
	if len(in.Alts) > 0 && len(cases) < 100 {
		hx.Fatal("only %d alteration cases below an expStep node", len(cases))
	}
	reps := 2
	if thorough {
		reps = 8
	}
	type unit struct{ bit, rep int }
	var units []unit
	for bit := 0; bit <= 1; bit++ {
		for r := 0; r < reps; r++ {
			units = append(units, unit{bit, r})
		}
	}
	dom := domains{order: M(g.Order), groupPrime: M(g.P), n: M(g.P), oddOrder: M(g.Order)}
	dontcare := map[string]map[string]bool{}
	hx.Parallel(len(units), func(ui int) {
		u := units[ui]
		rng := hx.Rng(a.Seed, fmt.Sprintf("or/%d/%d", u.bit, u.rep))
		o := newOrSetup(g, rng, u.bit, true)
		var proof keyproof.ExpStepProof
		var c *gobig.Int
		real := map[int]string{0: "A", 1: "B"}[u.bit]
		d := func(extra hx.M) hx.M {
			m := hx.M{"part": "orstep", "real_branch": real}
			for k, v := range extra {
				m[k] = v
			}
			return m
		}
		if p, msg := hx.Try(func() { proof, c = o.honest() }); p {
			res.Violation("honest-panic", "building an expStep proof panicked: "+msg, d(nil))
			return
		}
		res.Eval("")
		if v := o.verify(proof, c); v != "accept" {
			res.Violation("honest-rejected", fmt.Sprintf("honest expStep proof with branch %s real does not verify: %s", real, v), d(nil))
			return
		}
		tr := enumerate(&proof)
		root := reflect.ValueOf(&proof).Elem()
		for _, sc := range cases {
			cc := sc.c
			cc.P = sc.tail
			var ins []inst
			if len(sc.tail) == 0 {
				ins = []inst{{nil, nil}}
			} else {
				ins = instancesFor(tr, &cc)
			}
			if len(ins) == 0 {
				hx.Fatal("no instance of %v (%s) in a real expStep proof", sc.tail, cc.K)
			}
			n := 1
			if thorough {
				n = 2
			}
			for t := 0; t < n; t++ {
				it := ins[rng.Intn(len(ins))]
				j := job{Path: it.Path, Kind: cc.K, Type: cc.T, Seed: rng.Int63()}
				undo, what, err := applyAlt(root, j, dom)
				if err != nil {
					hx.Fatal("%v", err)
				}
				v := o.verify(proof, c)
				undo()
				ek := "or/" + real + "/" + classKey(sc.tail) + "|" + cc.K
				res.Eval(ek)
				dd := d(hx.M{"case": sc.c, "path": pathString(it.Path), "change": what, "verdict": v, "branch_of_leaf": cc.Branch})
				switch {
				case strings.HasPrefix(v, "panic"):
					res.Violation("panic", fmt.Sprintf("expStep verification panicked after %s %s: %s", cc.K, pathString(it.Path), v), dd)
				case cc.Expect == "reject" && v == "accept":
					res.Violation("altered-accepted", fmt.Sprintf("expStep (branch %s real) accepted after %s of %s (%s)", real, cc.K, pathString(it.Path), what), dd)
				case cc.Expect == "dontcare":
					res.Count("dontcare:" + cc.T + ":" + cc.K + ":" + v)
					_ = dontcare
				}
			}
		}
		if v := o.verify(proof, c); v != "accept" {
			hx.Fatal("harness: alterations were not undone (expStep)")
		}
		// other challenge / other statement
		res.Eval("or/" + real + "/other challenge")
		if v := o.verify(proof, add(c, b1)); v != "reject" {
			res.Violation("altered-accepted", "expStep proof verified under another challenge: "+v, d(nil))
		}
		o2 := newOrSetup(g, rng, u.bit, true)
		res.Eval("or/" + real + "/other statement")
		if v := o2.verify(proof, c); v != "reject" {
			res.Violation("altered-accepted", "expStep proof verified against other commitments: "+v, d(nil))
		}
		// forgery: both branches simulated, sub-challenges free; the statement may even be false
		for _, truth := range []bool{true, false} {
			of := newOrSetup(g, rng, u.bit, truth)
			sa := keyproof.VerifNewExpStepAStructure("bit", "pre", "post")
			sb := keyproof.VerifNewExpStepBStructure("bit", "pre", "post", "mul", "mod", of.bitlen)
			var forged keyproof.ExpStepProof
			var fc *gobig.Int
			if p, msg := hx.Try(func() {
				forged = keyproof.ExpStepProof{Achallenge: G(randBits(rng, 256)), Aproof: keyproof.VerifExpStepAFakeProof(&sa, g),
					Bchallenge: G(randBits(rng, 256)), Bproof: keyproof.VerifExpStepBFakeProof(&sb, g)}
				list := keyproof.VerifExpStepCommitmentsFromProof(&of.s, of.g, []*big.Int{}, big.NewInt(0), &of.bases, forged)
				fc = M(verifx.HashCommit(list, false))
			}); p {
				hx.Fatal("harness: simulating both branches panicked: %s", msg)
			}
			res.Eval(fmt.Sprintf("or/forge/%v", truth))
			v := of.verify(forged, fc)
			if v == "accept" {
				res.Violation("or-forged", fmt.Sprintf("expStep accepted a proof with BOTH branches simulated (sub-challenges do not XOR to the challenge; statement true: %v)", truth),
					d(hx.M{"achallenge": forged.Achallenge.String(), "bchallenge": forged.Bchallenge.String(), "challenge": fc.String()}))
			} else if strings.HasPrefix(v, "panic") {
				res.Violation("panic", "expStep verification panicked on a simulated proof: "+v, d(nil))
			}
			res.Count("forge:" + v)
		}
		res.Count("or-proofs:" + real)
	})
	rangeObservation(a, in, res, g)
	res.Notes["or_cases"] = len(cases)
}

// the range proof on a secret inside / far outside its range
func rangeObservation(a *hx.Args, in *input, res *hx.Result, g zkproof.Group) {
	rng := hx.Rng(a.Seed, "range")
	const l2 = 32
	for _, tc := range []struct {
		name   string
		secret *gobig.Int
		inside bool
	}{{"inside", randBits(rng, l2-1), true}, {"zero", bi(0), true}, {"far above", randBits(rng, l2+keyproof.VerifRangeProofEpsilon+40), false}} {
		lk := &lookups{m: map[string]*named{"x": commitTo(&g, rng, tc.secret)}}
		bases := zkproof.NewBaseMerge(&g, lk)
		rs := keyproof.VerifNewPedersenRangeProofStructure("x", 0, l2)
		var v string
		var negatives int
		if p, msg := hx.Try(func() {
			list, rc := keyproof.VerifRangeProofCommitmentsFromSecrets(&rs, g, []*big.Int{}, &bases, lk)
			c := verifx.HashCommit(list, false)
			rp := keyproof.VerifRangeProofBuildProof(&rs, g, c, rc, lk)
			for _, r := range rp.Results["x"] {
				if r.Sign() < 0 {
					negatives++
				}
			}
			v = verdict(func() bool {
				if !keyproof.VerifRangeProofVerifyProofStructure(&rs, rp) {
					return false
				}
				l := keyproof.VerifRangeProofCommitmentsFromProof(&rs, g, []*big.Int{}, c, &bases, rp)
				return verifx.HashCommit(l, false).Cmp(c) == 0
			})
		}); p {
			res.Violation("panic", "range proof panicked on secret "+tc.name+": "+msg, hx.M{"part": "orstep", "sub": "range"})
			continue
		}
		res.Eval("range/" + tc.name)
		res.Count("range:" + tc.name + ":" + v)
		switch {
		case tc.inside && v != "accept":
			res.Violation("honest-rejected", "range proof of a secret inside its range does not verify: "+v, hx.M{"part": "orstep", "sub": "range", "secret": tc.secret.String()})
		case !tc.inside && v == "accept":
			msg := fmt.Sprintf("range proof for l2=%d verified for a %d-bit secret (%d negative results: no lower limit on results; such a proof cannot be serialised)", l2, tc.secret.BitLen(), negatives)
			if in.Params != nil && in.Params.RangeNonNeg == 1 {
				res.Violation("range-unsound", msg, hx.M{"part": "orstep", "sub": "range", "secret": tc.secret.String()})
			} else {
				res.Notes["observation_range"] = msg
				res.Count("observed:out-of-range-secret-proven")
			}
		}
	}
}
