package main

// kp full / kp worker: the whole ValidKeyProof on random good keys.

import (
	"bufio"
	"encoding/json"
	"fmt"
	"io"
	gobig "math/big"
	"os"
	"os/exec"
	"path/filepath"
	"reflect"
	"runtime"
	"sort"
	"strings"
	"sync"
	"time"

	"verifharness/hx"

	"github.com/privacybydesign/gabi/big"
	"github.com/privacybydesign/gabi/keyproof"
)

type keyFile struct {
	N      string          `json:"n"`
	Bases  []string        `json:"bases"`
	Pprime string          `json:"pprime"`
	Qprime string          `json:"qprime"`
	Proof  json.RawMessage `json:"proof"`
}

type jobResult struct {
	ID      int    `json:"id"`
	Verdict string `json:"verdict"`
	What    string `json:"what"`
	Ms      int64  `json:"ms"`
	Err     string `json:"err,omitempty"`
}

func parseInt(s string) *gobig.Int {
	x, ok := new(gobig.Int).SetString(s, 10)
	if !ok {
		hx.Fatal("bad integer %q", s)
	}
	return x
}

// ---------------------------------------------------------------- worker process

func workerMain() {
	if len(os.Args) < 2 {
		hx.Fatal("usage: kp worker <keyfile>")
	}
	raw, err := os.ReadFile(os.Args[1])
	if err != nil {
		hx.Fatal("worker: %v", err)
	}
	var kf keyFile
	if err := json.Unmarshal(raw, &kf); err != nil {
		hx.Fatal("worker: %v", err)
	}
	var proof keyproof.ValidKeyProof
	if err := json.Unmarshal(kf.Proof, &proof); err != nil {
		hx.Fatal("worker: proof: %v", err)
	}
	n := parseInt(kf.N)
	var bases []*gobig.Int
	for _, b := range kf.Bases {
		bases = append(bases, parseInt(b))
	}
	dom := domains{order: new(gobig.Int).Rsh(proof.GroupPrime.Go(), 1), groupPrime: M(proof.GroupPrime), n: n, oddOrder: mul(parseInt(kf.Pprime), parseInt(kf.Qprime))}
	root := reflect.ValueOf(&proof).Elem()
	in := bufio.NewReaderSize(os.Stdin, 1<<20)
	out := bufio.NewWriter(os.Stdout)
	for {
		line, err := in.ReadString('\n')
		if len(strings.TrimSpace(line)) > 0 {
			var j job
			if e := json.Unmarshal([]byte(line), &j); e != nil {
				hx.Fatal("worker: job: %v", e)
			}
			r := runJob(root, &proof, j, dom, n, bases)
			b, _ := json.Marshal(r)
			out.Write(b)
			out.WriteByte('\n')
			out.Flush()
		}
		if err != nil {
			return
		}
	}
}

func runJob(root reflect.Value, proof *keyproof.ValidKeyProof, j job, dom domains, n *gobig.Int, bases []*gobig.Int) jobResult {
	r := jobResult{ID: j.ID}
	t0 := time.Now()
	vn, vb := n, bases
	if j.CtxN != "" {
		vn = parseInt(j.CtxN)
	}
	if j.HasB {
		vb = nil
		for _, b := range j.CtxB {
			vb = append(vb, parseInt(b))
		}
	}
	undo := func() {}
	if j.Kind != "" {
		u, what, err := applyAlt(root, j, dom)
		if err != nil {
			r.Err = err.Error()
			return r
		}
		undo, r.What = u, what
	}
	target := *proof
	transport := true
	if j.JSON {
		b, err := json.Marshal(proof)
		if err != nil {
			transport = false
			r.What += " (json.Marshal: " + err.Error() + ")"
		} else {
			var p2 keyproof.ValidKeyProof
			if err := json.Unmarshal(b, &p2); err != nil {
				transport = false
				r.What += " (json.Unmarshal: " + err.Error() + ")"
			}
			target = p2
		}
	}
	if !transport {
		r.Verdict = "untransportable"
	} else {
		r.Verdict = verdict(func() bool {
			s := keyproof.NewValidKeyProofStructure(G(vn), GL(vb))
			return s.VerifyProof(target)
		})
	}
	undo()
	r.Ms = time.Since(t0).Milliseconds()
	return r
}

// ---------------------------------------------------------------- worker pool (parent side)

type worker struct {
	cmd    *exec.Cmd
	stdin  io.WriteCloser
	stdout *bufio.Reader
	stderr *tailBuf
}

type tailBuf struct {
	mu sync.Mutex
	b  []byte
}

func (t *tailBuf) Write(p []byte) (int, error) {
	t.mu.Lock()
	t.b = append(t.b, p...)
	if len(t.b) > 6000 {
		t.b = t.b[len(t.b)-6000:]
	}
	t.mu.Unlock()
	return len(p), nil
}

func startWorker(keyfile string) *worker {
	cmd := exec.Command(os.Args[0], "worker", keyfile)
	stdin, err := cmd.StdinPipe()
	if err != nil {
		hx.Fatal("worker pipe: %v", err)
	}
	so, err := cmd.StdoutPipe()
	if err != nil {
		hx.Fatal("worker pipe: %v", err)
	}
	tb := &tailBuf{}
	cmd.Stderr = tb
	if err := cmd.Start(); err != nil {
		hx.Fatal("worker start: %v", err)
	}
	return &worker{cmd, stdin, bufio.NewReaderSize(so, 1<<20), tb}
}

func (w *worker) stop() {
	w.stdin.Close()
	done := make(chan struct{})
	go func() { w.cmd.Wait(); close(done) }()
	select {
	case <-done:
	case <-time.After(20 * time.Second):
		w.cmd.Process.Kill()
	}
}

// panicSummary extracts the first lines of a Go crash report.
func panicSummary(s string) string {
	i := strings.Index(s, "panic:")
	if i < 0 {
		i = strings.Index(s, "fatal error:")
	}
	if i < 0 {
		if len(s) > 300 {
			return s[len(s)-300:]
		}
		return s
	}
	s = s[i:]
	var keep []string
	for _, l := range strings.Split(s, "\n") {
		l = strings.TrimSpace(l)
		if strings.HasPrefix(l, "panic:") || strings.HasPrefix(l, "fatal error:") || strings.Contains(l, "/keyproof/") || strings.Contains(l, "/zkproof/") {
			keep = append(keep, l)
		}
		if len(keep) >= 6 {
			break
		}
	}
	return strings.Join(keep, " | ")
}

// runJobs executes jobs on nw worker processes; a crashed worker yields verdict "crash: ..." for the job in flight.
func runJobs(keyfile string, jobs []job, nw int) map[int]jobResult {
	results := map[int]jobResult{}
	var mu sync.Mutex
	ch := make(chan job, len(jobs))
	for _, j := range jobs {
		ch <- j
	}
	close(ch)
	var wg sync.WaitGroup
	for k := 0; k < nw; k++ {
		wg.Add(1)
		go func() {
			defer wg.Done()
			var w *worker
			for j := range ch {
				if w == nil {
					w = startWorker(keyfile)
				}
				b, _ := json.Marshal(j)
				w.stdin.Write(append(b, '\n'))
				type rd struct {
					line string
					err  error
				}
				rc := make(chan rd, 1)
				go func(w *worker) { l, e := w.stdout.ReadString('\n'); rc <- rd{l, e} }(w)
				var r jobResult
				select {
				case x := <-rc:
					if x.err != nil || json.Unmarshal([]byte(x.line), &r) != nil {
						w.cmd.Wait()
						w.stderr.mu.Lock()
						msg := panicSummary(string(w.stderr.b))
						w.stderr.mu.Unlock()
						if strings.Contains(msg, "HARNESS-FAILURE") {
							hx.Fatal("worker failed: %s", msg)
						}
						r = jobResult{ID: j.ID, Verdict: "crash: " + msg}
						w = nil
					}
				case <-time.After(20 * time.Minute):
					w.cmd.Process.Kill()
					hx.Fatal("worker timed out on job %+v", j)
				}
				if r.Err != "" {
					hx.Fatal("worker: %s", r.Err)
				}
				mu.Lock()
				results[j.ID] = r
				mu.Unlock()
			}
			if w != nil {
				w.stop()
			}
		}()
	}
	wg.Wait()
	return results
}

// ---------------------------------------------------------------- planning

type planned struct {
	job    job
	alt    *altCase
	ctx    *ctxCase
	expect string
	cheap  bool
	desc   string
}

func isCheap(fails []string) bool {
	for _, f := range fails {
		if f == "struct" || f == "range" || f == "xor" {
			return true
		}
	}
	return false
}

func instancesFor(tr *tree, c *altCase) []inst {
	k := classKey(c.P)
	if c.Leaf {
		return tr.leaves[k]
	}
	switch c.K {
	case "truncate", "extend", "nilelem":
		return tr.slices[k]
	case "dropkey", "addshort", "addfull":
		return tr.maps[k]
	case "orswap", "orshiftboth":
		return tr.ors[k]
	}
	return nil
}

func full(a *hx.Args, in *input, res *hx.Result) {
	thorough := a.Tier == "thorough"
	if len(in.Alts) == 0 || len(in.Leaves) == 0 {
		hx.Fatal("kp full needs the L and C records of KeyProofGen")
	}
	nkeys, budget := 2, 46
	if thorough {
		nkeys, budget = 20, 1500
	}
	if a.N > 0 {
		budget = a.N
	}
	dir, err := os.MkdirTemp(filepath.Dir(a.Out), "kp-")
	if err != nil {
		hx.Fatal("tempdir: %v", err)
	}
	defer os.RemoveAll(dir)
	nw := runtime.NumCPU() / 2
	if nw < 2 {
		nw = 2
	}
	if nw > 8 {
		nw = 8
	}
	specClasses := map[string]leafClass{}
	for _, l := range in.Leaves {
		specClasses[classKey(l.P)] = l
	}
	// full-cost (class, kind) pairs still to be covered, shared by all keys
	var fullCases, cheapCases []*altCase
	for i := range in.Alts {
		c := &in.Alts[i]
		if isCheap(c.Fails) {
			cheapCases = append(cheapCases, c)
		} else {
			fullCases = append(fullCases, c)
		}
	}
	rng := hx.Rng(a.Seed, "full-plan")
	rng.Shuffle(len(fullCases), func(i, j int) { fullCases[i], fullCases[j] = fullCases[j], fullCases[i] })
	covered := map[string]bool{} // class|kind executed
	dontcare := map[string]map[string]bool{}
	kindsSeen, classesSeen, typesSeen := map[string]bool{}, map[string]bool{}, map[string]bool{}
	leavesTotal := 0
	t0 := time.Now()
	for k := 0; k < nkeys; k++ {
		if thorough && k >= 4 && time.Since(t0) > 17*time.Minute {
			res.Notes["keys_skipped_for_time"] = nkeys - k
			break
		}
		krng := hx.Rng(a.Seed, fmt.Sprintf("full-key/%d", k))
		bits := 48 + krng.Intn(49)
		if k == 0 {
			bits = 48
		}
		if k == 1 {
			// a size for which the prover takes a built-in group prime that is LONGER than the minimum the verifier asks for
			// (keyproof.findSafePrime rounds up to its table; real 1024..4096-bit keys are in that situation too)
			bits = 84 + krng.Intn(13)
		}
		nb := 1 + krng.Intn(4)
		key := genGoodKey(bits)
		var bases []*gobig.Int
		for len(bases) < nb {
			x := add(randBelow(krng, sub(key.N, b3)), b2)
			if !isOne(gcd(x, key.N)) {
				continue
			}
			bases = append(bases, mod(mul(x, x), key.N))
		}
		kd := hx.M{"bits": bits, "n": key.N.String(), "bases": strs(bases), "pprime": key.Pp.String(), "qprime": key.Qp.String()}
		s := keyproof.NewValidKeyProofStructure(G(key.N), GL(bases))
		var proof keyproof.ValidKeyProof
		tb := time.Now()
		if p, msg := hx.Try(func() { proof = s.BuildProof(G(key.Pp), G(key.Qp)) }); p {
			res.Violation("honest-panic", "BuildProof panicked on a properly generated key: "+msg, hx.M{"part": "full", "key": kd})
			continue
		}
		buildMs := time.Since(tb).Milliseconds()
		res.Eval("")
		if v := verdict(func() bool { return s.VerifyProof(proof) }); v != "accept" {
			res.Violation("honest-rejected", fmt.Sprintf("the proof of a properly generated %d-bit-prime key with %d bases does not verify: %s", bits, nb, v), hx.M{"part": "full", "key": kd})
			continue
		}
		pj, err := json.Marshal(proof)
		if err != nil {
			res.Violation("honest-rejected", "json.Marshal of an honest proof failed: "+err.Error(), hx.M{"part": "full", "key": kd})
			continue
		}
		var back keyproof.ValidKeyProof
		if err := json.Unmarshal(pj, &back); err != nil {
			res.Violation("honest-rejected", "json.Unmarshal of an honest proof failed: "+err.Error(), hx.M{"part": "full", "key": kd})
			continue
		}
		res.Eval("")
		if v := verdict(func() bool { return s.VerifyProof(back) }); v != "accept" {
			res.Violation("honest-rejected", "the proof does not verify after a JSON round trip: "+v, hx.M{"part": "full", "key": kd})
			continue
		}
		// the XOR rule of the prime proof's OR node (a^((p-1)/2) = +1 OR -1), observed at the structure check that carries it:
		// with both sub-challenges free a prover could simulate both branches, and no alteration of a finished proof can show that
		for _, pp := range []struct {
			name  string
			proof *keyproof.PrimeProof
		}{{"pprime", &back.PprimeIsPrimeProof}, {"qprime", &back.QprimeIsPrimeProof}} {
			ps := keyproof.VerifNewPrimeProofStructure(pp.name, uint((key.N.BitLen()+1)/2))
			mask := randBits(krng, 200)
			for _, which := range []string{"none", "APlus1Challenge", "AMin1Challenge"} {
				pc := *pp.proof
				switch which {
				case "APlus1Challenge":
					pc.APlus1Challenge = G(new(gobig.Int).Xor(M(pc.APlus1Challenge), mask))
				case "AMin1Challenge":
					pc.AMin1Challenge = G(new(gobig.Int).Xor(M(pc.AMin1Challenge), mask))
				}
				v := verdict(func() bool { return keyproof.VerifPrimeProofVerifyProofStructure(&ps, back.Challenge, pc) })
				res.Eval("xor-rule/prime/" + which)
				d := hx.M{"part": "full", "key": kd, "node": pp.name + " prime proof", "altered": which, "verdict": v}
				switch {
				case strings.HasPrefix(v, "panic"):
					res.Violation("panic", "prime-proof structure check panicked: "+v, d)
				case which == "none" && v != "accept":
					res.Violation("honest-rejected", "structure check of an honest prime proof fails", d)
				case which != "none" && v == "accept":
					res.Violation("xor-rule", fmt.Sprintf("the %s prime proof passes its structure check although %s was changed: sub-challenges no longer XOR to the challenge", pp.name, which), d)
				}
			}
		}
		// the tree of the real proof against the grammar of the specification
		tr := enumerate(&back)
		leavesTotal += tr.nLeaves
		for ck := range tr.leaves {
			if _, ok := specClasses[ck]; !ok {
				hx.Fatal("leaf class %s of the real proof is not in the grammar of KeyProof.tla (the proof tree changed: update Kids)", ck)
			}
		}
		for ck := range specClasses {
			if len(tr.leaves[ck]) == 0 {
				hx.Fatal("leaf class %s of KeyProof.tla has no leaf in the real proof", ck)
			}
		}
		keyfile := filepath.Join(dir, fmt.Sprintf("key%d.json", k))
		kfb, _ := json.Marshal(keyFile{N: key.N.String(), Bases: strs(bases), Pprime: key.Pp.String(), Qprime: key.Qp.String(), Proof: pj})
		if err := os.WriteFile(keyfile, kfb, 0o600); err != nil {
			hx.Fatal("keyfile: %v", err)
		}
		// ---- plan
		var plan []planned
		id := 0
		addAlt := func(c *altCase, cheap bool) {
			ins := instancesFor(tr, c)
			if len(ins) == 0 {
				hx.Fatal("no instance of %v for alteration %s in the real proof", c.P, c.K)
			}
			it := ins[krng.Intn(len(ins))]
			id++
			plan = append(plan, planned{job: job{ID: id, Path: it.Path, Kind: c.K, Type: c.T, Seed: krng.Int63()}, alt: c, expect: c.Expect, cheap: cheap,
				desc: fmt.Sprintf("%s %s", c.K, pathString(it.Path))})
		}
		for _, c := range cheapCases {
			if thorough || k == 0 || krng.Intn(4) == 0 {
				addAlt(c, true)
			}
		}
		share := budget / nkeys
		if !thorough {
			share = budget * 3 / 4
			if k > 0 {
				share = budget - budget*3/4
			}
		}
		chosen := map[*altCase]bool{}
		choose := func(c *altCase) {
			if !chosen[c] && share > 0 {
				chosen[c] = true
				share--
				addAlt(c, false)
			}
		}
		// context cases first on the second key of a quick run, on every fourth key of a thorough run
		if (k == 1 && !thorough) || (thorough && k%4 == 1) {
			other := genGoodKey(bits)
			for i := range in.Ctx {
				x := &in.Ctx[i]
				if x.Transport == "json" && (x.N != "same" || x.B != "same") && !thorough {
					continue
				}
				if x.N == "other" && x.B != "same" && !thorough {
					continue
				}
				j := job{JSON: x.Transport == "json", Label: fmt.Sprintf("ctx n=%s bases=%s transport=%s", x.N, x.B, x.Transport)}
				if x.N == "other" {
					j.CtxN = other.N.String()
				}
				nbs := append([]*gobig.Int{}, bases...)
				switch x.B {
				case "changed":
					y := add(randBelow(krng, sub(key.N, b3)), b2)
					nbs[krng.Intn(len(nbs))] = mod(mul(y, y), key.N)
				case "permuted":
					if len(nbs) < 2 || nbs[0].Cmp(nbs[1]) == 0 {
						continue
					}
					nbs[0], nbs[1] = nbs[1], nbs[0]
				case "fewer":
					nbs = nbs[:len(nbs)-1]
				case "more":
					nbs = append(nbs, mod(mul(bi(12345), bi(12345)), key.N))
				}
				if x.B != "same" {
					j.HasB, j.CtxB = true, strs(nbs)
				}
				cheap := isCheap(x.Fails)
				if !cheap {
					if share <= 0 {
						continue
					}
					share--
				}
				id++
				j.ID = id
				plan = append(plan, planned{job: j, ctx: x, expect: x.Expect, cheap: cheap, desc: j.Label})
			}
		}
		top := map[string]bool{"PProof": true, "QProof": true, "PprimeProof": true, "QprimeProof": true, "PQNRel": true, "GroupPrime": true}
		changing := []string{"plus1", "random", "zero"}
		pick := changing[int(a.Seed+int64(k))%3]
		if k == 0 || thorough {
			// 1. every top-level leaf
			for _, c := range fullCases {
				if c.Leaf && top[c.P[0]] && ((c.K == pick && c.T != "L:GroupPrime") || (c.T == "L:GroupPrime" && c.K == "random")) {
					choose(c)
				}
			}
			// 2. every leaf kind in every OR branch
			seenTB := map[string]bool{}
			for _, c := range fullCases {
				if c.Leaf && c.Expect == "reject" && !top[c.P[0]] && (c.K == "plus1" || c.K == "random") && !seenTB[c.T+c.Branch] {
					seenTB[c.T+c.Branch] = true
					choose(c)
				}
			}
			// 3. the OR nodes
			for _, c := range fullCases {
				if c.K == "orswap" || c.K == "orshiftboth" {
					choose(c)
				}
			}
			// 4. don't-care probes
			seenDC := map[string]bool{}
			for _, c := range fullCases {
				if c.Expect == "dontcare" && c.Leaf && !seenDC[c.T+c.K] && (c.T == "L:Schnorr" || c.T == "L:RangeSecret" || c.T == "L:PedCommit" || c.T == "L:SFResp") {
					seenDC[c.T+c.K] = true
					if c.K == "shift" || (c.K == "unshift" && c.T == "L:RangeSecret") {
						choose(c)
					}
				}
			}
		}
		// 5. whatever is not covered yet, in the seeded order
		for _, c := range fullCases {
			if share <= 0 {
				break
			}
			if !covered[classKey(c.P)+"|"+c.K] {
				choose(c)
			}
		}
		// the honest proof once more through a worker, after the round trip
		id++
		plan = append(plan, planned{job: job{ID: id, JSON: true, Label: "honest, JSON"}, expect: "accept", desc: "honest proof after JSON round trip (worker)"})
		var jobs []job
		nfull := 0
		for _, p := range plan {
			jobs = append(jobs, p.job)
			if !p.cheap {
				nfull++
			}
		}
		tv := time.Now()
		results := runJobs(keyfile, jobs, nw)
		// ---- judge
		for _, p := range plan {
			r, ok := results[p.job.ID]
			if !ok {
				hx.Fatal("no result for job %d", p.job.ID)
			}
			ek := p.desc
			if p.alt != nil {
				ek = classKey(p.alt.P) + "|" + p.alt.K
				covered[ek] = true
				kindsSeen[p.alt.K] = true
				classesSeen[classKey(p.alt.P)] = true
				typesSeen[p.alt.T+"/"+p.alt.Branch] = true
			}
			res.Eval(ek)
			d := hx.M{"part": "full", "key": kd, "verdict": r.Verdict, "change": r.What, "path": pathString(p.job.Path), "expect": p.expect}
			if p.alt != nil {
				d["case"] = p.alt
			}
			if p.ctx != nil {
				d["case"] = p.ctx
			}
			bad := strings.HasPrefix(r.Verdict, "panic") || strings.HasPrefix(r.Verdict, "crash")
			switch {
			case bad:
				res.Violation("panic", fmt.Sprintf("VerifyProof panicked (%s): %s", p.desc, r.Verdict), d)
			case p.expect == "reject" && r.Verdict == "accept":
				res.Violation("altered-accepted", fmt.Sprintf("VerifyProof accepted the proof after: %s (%s)", p.desc, r.What), d)
			case p.expect == "accept" && r.Verdict != "accept":
				res.Violation("honest-rejected", fmt.Sprintf("VerifyProof rejected: %s (%s)", p.desc, r.Verdict), d)
			case p.expect == "dontcare":
				if dontcare[ek] == nil {
					dontcare[ek] = map[string]bool{}
				}
				dontcare[ek][r.Verdict] = true
				res.Count("dontcare:" + p.alt.T + ":" + p.alt.K + ":" + r.Verdict)
			}
			if !p.cheap && p.alt != nil {
				res.Sample(hx.M{"alteration": p.desc, "change": r.What, "expected": p.expect, "verdict": r.Verdict, "ms": r.Ms})
			}
		}
		res.Count("keys")
		res.Notes[fmt.Sprintf("key%d", k)] = hx.M{"prime_bits": bits, "bases": nb, "leaves": tr.nLeaves, "build_ms": buildMs, "jobs": len(jobs), "full_cost_jobs": nfull,
			"verify_wall_ms": time.Since(tv).Milliseconds(), "json_bytes": len(pj)}
	}
	for ek, vs := range dontcare {
		if len(vs) > 1 {
			res.Violation("dontcare-inconsistent", "an alteration that leaves the proof the same in its natural domain is sometimes accepted and sometimes rejected: "+ek, hx.M{"part": "full", "case": ek})
		}
	}
	var ks []string
	for k := range kindsSeen {
		ks = append(ks, k)
	}
	sort.Strings(ks)
	res.Notes["alteration_kinds"] = ks
	res.Notes["leaf_classes_spec"] = len(specClasses)
	res.Notes["classes_altered"] = len(classesSeen)
	res.Notes["leaf_kind_x_branch_altered"] = len(typesSeen)
	res.Notes["leaves_enumerated"] = leavesTotal
	res.Notes["class_kind_pairs_executed"] = len(covered)
	res.Notes["workers"] = nw
	_ = big.NewInt
}
