package main

// Reflection over proof objects: enumeration of leaves / containers / OR nodes with their class paths
// (Go field names = the grammar of KeyProof.tla part (b)) and application of one alteration.

import (
	"fmt"
	gobig "math/big"
	mrand "math/rand"
	"reflect"
	"sort"
	"strconv"
	"strings"

	"github.com/privacybydesign/gabi/big"
	"github.com/privacybydesign/gabi/keyproof"
)

var (
	bigPtrType   = reflect.TypeOf((*big.Int)(nil))
	expStepType  = reflect.TypeOf(keyproof.ExpStepProof{})
	primeProofTy = reflect.TypeOf(keyproof.PrimeProof{})
)

type inst struct {
	Path  []string // "F:Field", "I:3", "K:mapkey"
	Class []string
}

type tree struct {
	leaves, slices, maps, ors map[string][]inst
	nLeaves                   int
}

func classKey(c []string) string { return strings.Join(c, ".") }

func app(p []string, s string) []string {
	out := make([]string, len(p)+1)
	copy(out, p)
	out[len(p)] = s
	return out
}

func newTree() *tree {
	return &tree{leaves: map[string][]inst{}, slices: map[string][]inst{}, maps: map[string][]inst{}, ors: map[string][]inst{}}
}

func (t *tree) walk(v reflect.Value, path, class []string) {
	if v.Type() == bigPtrType {
		t.leaves[classKey(class)] = append(t.leaves[classKey(class)], inst{path, class})
		t.nLeaves++
		return
	}
	switch v.Kind() {
	case reflect.Struct:
		if v.Type() == expStepType || v.Type() == primeProofTy {
			t.ors[classKey(class)] = append(t.ors[classKey(class)], inst{path, class})
		}
		for i := 0; i < v.NumField(); i++ {
			f := v.Type().Field(i)
			if !f.IsExported() {
				continue
			}
			t.walk(v.Field(i), app(path, "F:"+f.Name), app(class, f.Name))
		}
	case reflect.Slice:
		t.slices[classKey(class)] = append(t.slices[classKey(class)], inst{path, class})
		for i := 0; i < v.Len(); i++ {
			t.walk(v.Index(i), app(path, "I:"+strconv.Itoa(i)), class)
		}
	case reflect.Map:
		t.maps[classKey(class)] = append(t.maps[classKey(class)], inst{path, class})
		var keys []string
		for _, k := range v.MapKeys() {
			keys = append(keys, k.String())
		}
		sort.Strings(keys)
		for _, k := range keys {
			cls := "secret"
			if strings.HasSuffix(k, "hider") {
				cls = "hider"
			}
			t.walk(v.MapIndex(reflect.ValueOf(k)), app(path, "K:"+k), app(class, cls))
		}
	default:
		panic(fmt.Sprintf("unexpected kind %v at %v", v.Kind(), path))
	}
}

// enumerate walks *root (a pointer to a proof struct).
func enumerate(root any) *tree {
	t := newTree()
	t.walk(reflect.ValueOf(root).Elem(), nil, nil)
	return t
}

// resolve returns accessors for the value at path below the addressable struct root.
func resolve(root reflect.Value, path []string) (get func() reflect.Value, set func(reflect.Value)) {
	get = func() reflect.Value { return root }
	set = func(v reflect.Value) { root.Set(v) }
	for _, s := range path {
		g := get
		arg := s[2:]
		switch s[0] {
		case 'F':
			get = func() reflect.Value { return g().FieldByName(arg) }
			set = func(v reflect.Value) { g().FieldByName(arg).Set(v) }
		case 'I':
			i, _ := strconv.Atoi(arg)
			get = func() reflect.Value { return g().Index(i) }
			set = func(v reflect.Value) { g().Index(i).Set(v) }
		case 'K':
			k := reflect.ValueOf(arg)
			pset := set
			_ = pset
			get = func() reflect.Value { return g().MapIndex(k) }
			set = func(v reflect.Value) { g().SetMapIndex(k, v) }
		}
	}
	return
}

// moduli of the natural domains
type domains struct {
	order, groupPrime, n, oddOrder *gobig.Int
}

func (d domains) of(t string) *gobig.Int {
	switch t {
	case "L:Schnorr", "L:RangeHider", "L:RangeSecret":
		return d.order
	case "L:PedCommit":
		return d.groupPrime
	case "L:ASPPResp":
		return d.oddOrder
	}
	return d.n
}

// convenient safe primes 2^e - d (keyproof/safeprimegen.go lists them; primality is re-checked by the verifier anyway)
func otherSafePrime(cur *gobig.Int) *gobig.Int {
	p := sub(pow2(787), bi(7341))
	if p.Cmp(cur) == 0 {
		p = sub(pow2(836), bi(12077))
	}
	return p
}

type job struct {
	ID    int      `json:"id"`
	Path  []string `json:"path"`
	Kind  string   `json:"kind"`
	Type  string   `json:"type"`
	Seed  int64    `json:"seed"`
	CtxN  string   `json:"ctxn,omitempty"`
	CtxB  []string `json:"ctxb,omitempty"`
	HasB  bool     `json:"hasb,omitempty"`
	JSON  bool     `json:"json,omitempty"`
	Label string   `json:"label,omitempty"`
}

func cloneSlice(v reflect.Value, n int) reflect.Value {
	out := reflect.MakeSlice(v.Type(), n, n)
	reflect.Copy(out, v)
	return out
}

// applyAlt performs the alteration in place and returns its undo and a description of what changed.
func applyAlt(root reflect.Value, j job, dom domains) (undo func(), what string, err error) {
	defer func() {
		if r := recover(); r != nil {
			err = fmt.Errorf("harness cannot apply %s at %v: %v", j.Kind, j.Path, r)
		}
	}()
	rng := mrand.New(mrand.NewSource(j.Seed))
	get, set := resolve(root, j.Path)
	old := get()
	keep := reflect.New(old.Type()).Elem()
	keep.Set(old)
	undo = func() { set(keep) }
	setBig := func(x *gobig.Int) {
		set(reflect.ValueOf(big.Convert(x)))
		what = fmt.Sprintf("%s -> %s", shortInt(keep), shortStr(x.String()))
	}
	switch j.Kind {
	case "plus1", "random", "zero", "negmod", "shift", "unshift", "nil":
		if old.Type() != bigPtrType {
			return nil, "", fmt.Errorf("value alteration on non-leaf %v", j.Path)
		}
		if j.Kind == "nil" {
			set(reflect.Zero(bigPtrType))
			what = "nil"
			return
		}
		x := old.Interface().(*big.Int).Go()
		m := dom.of(j.Type)
		switch j.Kind {
		case "plus1":
			setBig(add(x, b1))
		case "zero":
			setBig(bi(0))
		case "random":
			if j.Type == "L:GroupPrime" {
				setBig(otherSafePrime(x))
			} else {
				bits := x.BitLen()
				if bits < 8 {
					bits = 8
				}
				y := randBits(rng, bits)
				if y.Cmp(x) == 0 {
					y = add(y, b1)
				}
				setBig(y)
			}
		case "negmod":
			setBig(sub(m, x))
		case "shift":
			setBig(add(x, m))
		case "unshift":
			setBig(sub(x, m))
		}
	case "truncate":
		set(old.Slice(0, old.Len()-1))
		what = fmt.Sprintf("len %d -> %d", old.Len(), old.Len()-1)
	case "extend":
		set(reflect.Append(cloneSlice(old, old.Len()), old.Index(old.Len()-1)))
		what = fmt.Sprintf("len %d -> %d", old.Len(), old.Len()+1)
	case "nilelem":
		i := rng.Intn(old.Len())
		c := cloneSlice(old, old.Len())
		c.Index(i).Set(reflect.Zero(bigPtrType))
		set(c)
		what = fmt.Sprintf("element %d nil", i)
	case "dropkey", "addshort", "addfull":
		nm := reflect.MakeMap(old.Type())
		keys := old.MapKeys()
		sort.Slice(keys, func(a, b int) bool { return keys[a].String() < keys[b].String() })
		drop := keys[rng.Intn(len(keys))]
		for _, k := range keys {
			if j.Kind == "dropkey" && k.String() == drop.String() {
				continue
			}
			nm.SetMapIndex(k, old.MapIndex(k))
		}
		switch j.Kind {
		case "dropkey":
			what = "dropped " + drop.String()
		case "addshort":
			short := []*big.Int{}
			if rng.Intn(2) == 0 {
				short = []*big.Int{big.NewInt(1)}
			}
			nm.SetMapIndex(reflect.ValueOf("zzz"), reflect.ValueOf(short))
			what = fmt.Sprintf("extra name zzz with %d results", len(short))
		case "addfull":
			nm.SetMapIndex(reflect.ValueOf("zzz"), cloneSlice(old.MapIndex(keys[len(keys)-1]), old.MapIndex(keys[len(keys)-1]).Len()))
			what = "extra name zzz with a full-length vector"
		}
		set(nm)
	case "orswap", "orshiftboth":
		fa, fb := "Achallenge", "Bchallenge"
		if old.Type() == primeProofTy {
			fa, fb = "APlus1Challenge", "AMin1Challenge"
		} else if old.Type() != expStepType {
			return nil, "", fmt.Errorf("OR alteration on %v", old.Type())
		}
		ga, sa := resolve(root, app(j.Path, "F:"+fa))
		gb, sb := resolve(root, app(j.Path, "F:"+fb))
		va, vb := ga().Interface().(*big.Int), gb().Interface().(*big.Int)
		undo = func() { sa(reflect.ValueOf(va)); sb(reflect.ValueOf(vb)) }
		if j.Kind == "orswap" {
			sa(reflect.ValueOf(vb))
			sb(reflect.ValueOf(va))
			what = "sub-challenges exchanged"
		} else {
			mask := randBits(rng, 200)
			sa(reflect.ValueOf(big.Convert(new(gobig.Int).Xor(va.Go(), mask))))
			sb(reflect.ValueOf(big.Convert(new(gobig.Int).Xor(vb.Go(), mask))))
			what = "both sub-challenges XOR " + mask.String()
		}
	default:
		return nil, "", fmt.Errorf("unknown alteration kind %q", j.Kind)
	}
	return
}

func shortStr(s string) string {
	if len(s) > 24 {
		return fmt.Sprintf("%s..%s(%d digits)", s[:10], s[len(s)-8:], len(s))
	}
	return s
}

func shortInt(v reflect.Value) string {
	if v.Type() != bigPtrType || v.IsNil() {
		return "?"
	}
	return shortStr(v.Interface().(*big.Int).String())
}

// pathString renders a concrete path like PprimeIsPrimeProof.AExpProof.InterStepsProofs[3].Bproof.Mul.Commit
func pathString(p []string) string {
	var sb strings.Builder
	for _, s := range p {
		switch s[0] {
		case 'F':
			if sb.Len() > 0 {
				sb.WriteByte('.')
			}
			sb.WriteString(s[2:])
		case 'I':
			sb.WriteString("[" + s[2:] + "]")
		case 'K':
			sb.WriteString("[\"" + s[2:] + "\"]")
		}
	}
	return sb.String()
}
