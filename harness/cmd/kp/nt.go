package main

// Number theory of the harness' cheating provers and of its own round equations (math/big only;
// nothing of the library under test is used here).

import (
	gobig "math/big"
	mrand "math/rand"
	"sort"
)

var (
	b0 = gobig.NewInt(0)
	b1 = gobig.NewInt(1)
	b2 = gobig.NewInt(2)
	b3 = gobig.NewInt(3)
	b8 = gobig.NewInt(8)
)

func bi(x int64) *gobig.Int             { return gobig.NewInt(x) }
func cp(x *gobig.Int) *gobig.Int        { return new(gobig.Int).Set(x) }
func mul(a, b *gobig.Int) *gobig.Int    { return new(gobig.Int).Mul(a, b) }
func add(a, b *gobig.Int) *gobig.Int    { return new(gobig.Int).Add(a, b) }
func sub(a, b *gobig.Int) *gobig.Int    { return new(gobig.Int).Sub(a, b) }
func mod(a, m *gobig.Int) *gobig.Int    { return new(gobig.Int).Mod(a, m) }
func gcd(a, b *gobig.Int) *gobig.Int    { return new(gobig.Int).GCD(nil, nil, a, b) }
func exp(a, e, m *gobig.Int) *gobig.Int { return new(gobig.Int).Exp(a, e, m) }
func isOne(a *gobig.Int) bool           { return a.Cmp(b1) == 0 }
func inv(a, m *gobig.Int) *gobig.Int    { return new(gobig.Int).ModInverse(a, m) } // nil if none
func pow2(n uint) *gobig.Int            { return new(gobig.Int).Lsh(b1, n) }
func oddPart(x *gobig.Int) *gobig.Int {
	r := cp(x)
	for r.Sign() != 0 && r.Bit(0) == 0 {
		r.Rsh(r, 1)
	}
	return r
}

func randBelow(rng *mrand.Rand, n *gobig.Int) *gobig.Int {
	return new(gobig.Int).Rand(rng, n)
}

func randBits(rng *mrand.Rand, bits int) *gobig.Int {
	x := new(gobig.Int).Rand(rng, pow2(uint(bits)))
	x.SetBit(x, bits-1, 1)
	return x
}

// pp is a prime power p^k.
type pp struct {
	P *gobig.Int
	K int
}

func (f pp) value() *gobig.Int { return exp(f.P, bi(int64(f.K)), nil) }

// phiPP = p^(k-1) (p-1)
func (f pp) phi() *gobig.Int {
	return mul(exp(f.P, bi(int64(f.K-1)), nil), sub(f.P, b1))
}

func product(fs []pp) *gobig.Int {
	n := bi(1)
	for _, f := range fs {
		n.Mul(n, f.value())
	}
	return n
}

func phiOf(fs []pp) *gobig.Int {
	n := bi(1)
	for _, f := range fs {
		n.Mul(n, f.phi())
	}
	return n
}

// factorSmall factors x (below 2^52 or with all but one prime factor below 2^26) by trial division.
func factorSmall(x *gobig.Int) []pp {
	var out []pp
	n := cp(x)
	if n.Sign() <= 0 {
		return nil
	}
	if !n.IsUint64() {
		// strip small factors with big arithmetic, the rest must be prime
		for d := int64(2); d < 1<<20; d++ {
			bd := bi(d)
			k := 0
			for mod(n, bd).Sign() == 0 {
				n.Div(n, bd)
				k++
			}
			if k > 0 {
				out = append(out, pp{bd, k})
			}
			if n.IsUint64() {
				break
			}
		}
		if !n.IsUint64() {
			if isOne(n) {
				return out
			}
			return append(out, pp{n, 1}) // caller guarantees primality by construction
		}
	}
	v := n.Uint64()
	for d := uint64(2); d*d <= v; d++ {
		k := 0
		for v%d == 0 {
			v /= d
			k++
		}
		if k > 0 {
			out = append(out, pp{new(gobig.Int).SetUint64(d), k})
		}
	}
	if v > 1 {
		out = append(out, pp{new(gobig.Int).SetUint64(v), 1})
	}
	return out
}

// mergeFactors multiplies factorisations.
func mergeFactors(lists ...[]pp) []pp {
	m := map[string]*pp{}
	for _, l := range lists {
		for _, f := range l {
			k := f.P.String()
			if e, ok := m[k]; ok {
				e.K += f.K
			} else {
				m[k] = &pp{cp(f.P), f.K}
			}
		}
	}
	var out []pp
	for _, f := range m {
		out = append(out, *f)
	}
	sort.Slice(out, func(i, j int) bool { return out[i].P.Cmp(out[j].P) < 0 })
	return out
}

// lcmFactors: factorisation of the lcm.
func lcmFactors(lists ...[]pp) []pp {
	m := map[string]*pp{}
	for _, l := range lists {
		for _, f := range l {
			k := f.P.String()
			if e, ok := m[k]; ok {
				if f.K > e.K {
					e.K = f.K
				}
			} else {
				m[k] = &pp{cp(f.P), f.K}
			}
		}
	}
	var out []pp
	for _, f := range m {
		out = append(out, *f)
	}
	sort.Slice(out, func(i, j int) bool { return out[i].P.Cmp(out[j].P) < 0 })
	return out
}

func crt(res, mods []*gobig.Int) *gobig.Int {
	x := bi(0)
	m := bi(1)
	for i := range res {
		// x' = x + m * ((res - x) * m^-1 mod mods[i])
		mi := inv(mod(m, mods[i]), mods[i])
		t := mod(mul(sub(res[i], x), mi), mods[i])
		x = add(x, mul(m, t))
		m = mul(m, mods[i])
	}
	return mod(x, m)
}

type rootState int

const (
	rootFound rootState = iota
	rootNone
	rootUnknown
)

// rootPP solves y^e = x modulo the odd prime power f (cyclic unit group), for e > 0.
func rootPP(rng *mrand.Rand, x, e *gobig.Int, f pp) (*gobig.Int, rootState) {
	q := f.value()
	x = mod(x, q)
	if x.Sign() == 0 {
		return bi(0), rootFound
	}
	if f.P.Cmp(b2) == 0 {
		if f.K == 1 {
			return bi(1), rootFound
		}
		return nil, rootUnknown
	}
	if mod(x, f.P).Sign() == 0 {
		return nil, rootUnknown // non-unit, not zero: best effort stops here
	}
	phi := f.phi()
	// phi = phiA * phiB, phiA coprime to e, every prime of phiB divides e
	phiA := cp(phi)
	phiB := bi(1)
	for {
		d := gcd(phiA, e)
		if isOne(d) {
			break
		}
		phiA.Div(phiA, d)
		phiB.Mul(phiB, d)
	}
	var ya *gobig.Int
	xa := cp(x)
	xb := bi(1)
	if !isOne(phiB) {
		if isOne(phiA) {
			xa = bi(1)
			xb = cp(x)
		} else {
			c := mul(phiB, inv(mod(phiB, phiA), phiA)) // = 1 mod phiA, = 0 mod phiB
			xa = exp(x, c, q)
			xb = mod(mul(x, inv(xa, q)), q)
		}
	}
	if isOne(phiA) {
		ya = bi(1)
	} else {
		ya = exp(xa, inv(mod(e, phiA), phiA), q)
	}
	if isOne(xb) {
		return ya, rootFound
	}
	// xb lives in the subgroup H of order phiB; the e-th powers of H form the subgroup of index gcd(e, phiB)
	g := gcd(e, phiB)
	if !isOne(exp(xb, new(gobig.Int).Div(phiB, g), q)) {
		return nil, rootNone
	}
	if phiB.BitLen() > 22 {
		return nil, rootUnknown
	}
	// generator of H
	fb := factorSmall(phiB)
	var h *gobig.Int
	for tries := 0; tries < 1000 && h == nil; tries++ {
		a := add(randBelow(rng, sub(q, b2)), b2)
		if mod(a, f.P).Sign() == 0 {
			continue
		}
		c := exp(a, phiA, q)
		ok := true
		for _, l := range fb {
			if isOne(exp(c, new(gobig.Int).Div(phiB, l.P), q)) {
				ok = false
				break
			}
		}
		if ok {
			h = c
		}
	}
	if h == nil {
		return nil, rootUnknown
	}
	he := exp(h, e, q)
	cur := bi(1)
	hj := bi(1)
	n := int(phiB.Int64())
	for j := 0; j < n; j++ {
		if cur.Cmp(xb) == 0 {
			return mod(mul(ya, hj), q), rootFound
		}
		cur = mod(mul(cur, he), q)
		hj = mod(mul(hj, h), q)
	}
	return nil, rootNone
}

// rootMod solves y^e = x modulo the odd number with factorisation fs.
func rootMod(rng *mrand.Rand, x, e *gobig.Int, fs []pp) (*gobig.Int, rootState) {
	var rs, ms []*gobig.Int
	worst := rootFound
	for _, f := range fs {
		y, st := rootPP(rng, x, e, f)
		if st == rootNone {
			return nil, rootNone
		}
		if st == rootUnknown {
			worst = rootUnknown
			continue
		}
		rs = append(rs, y)
		ms = append(ms, f.value())
	}
	if worst != rootFound {
		return nil, worst
	}
	return crt(rs, ms), rootFound
}

// sqrtMod solves r^2 = t modulo the odd m with factorisation fs (units by Hensel lifting; t = 0 mod p^k gives 0).
func sqrtMod(t *gobig.Int, fs []pp) (*gobig.Int, bool) {
	var rs, ms []*gobig.Int
	for _, f := range fs {
		q := f.value()
		tt := mod(t, q)
		if tt.Sign() == 0 {
			rs = append(rs, bi(0))
			ms = append(ms, q)
			continue
		}
		if mod(tt, f.P).Sign() == 0 {
			return nil, false // p | t, t != 0 mod p^k: best effort stops here
		}
		r := new(gobig.Int).ModSqrt(mod(tt, f.P), f.P)
		if r == nil {
			return nil, false
		}
		pk := cp(f.P)
		for k := 1; k < f.K; k++ {
			pk = mul(pk, f.P)
			// r <- r - (r^2 - t) / (2r)  mod p^(k+1)
			d := mod(sub(mul(r, r), tt), pk)
			r = mod(sub(r, mul(d, inv(mod(mul(b2, r), pk), pk))), pk)
		}
		rs = append(rs, r)
		ms = append(ms, q)
	}
	if len(rs) == 0 {
		return bi(0), true
	}
	return crt(rs, ms), true
}

// distinctOddPrimes of a factorisation.
func distinctOddPrimes(fs []pp) int {
	n := 0
	for _, f := range fs {
		if f.P.Cmp(b2) != 0 {
			n++
		}
	}
	return n
}

// ---------------------------------------------------------------- small-integer brute force (toy moduli)

func igcd(a, b int) int {
	for b != 0 {
		a, b = b, a%b
	}
	return a
}

func ipow(b, e, n int) int {
	r := 1 % n
	b %= n
	for e > 0 {
		if e&1 == 1 {
			r = r * b % n
		}
		b = b * b % n
		e >>= 1
	}
	return r
}

func iprime(p int) bool {
	if p < 2 {
		return false
	}
	for d := 2; d*d <= p; d++ {
		if p%d == 0 {
			return false
		}
	}
	return true
}

func iprimeFactors(n int) []int {
	var out []int
	for p := 2; p <= n; p++ {
		if n%p == 0 && iprime(p) {
			out = append(out, p)
		}
	}
	return out
}

func ioddPart(m int) int {
	for m > 0 && m%2 == 0 {
		m /= 2
	}
	return m
}

func iunits(n int) []int {
	var u []int
	for x := 1; x < n; x++ {
		if igcd(x, n) == 1 {
			u = append(u, x)
		}
	}
	return u
}
