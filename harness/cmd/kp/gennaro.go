package main

// kp gennaro: the four sub-protocols of Gennaro et al. against their COMPONENT verifiers.

import (
	"fmt"
	gobig "math/big"
	mrand "math/rand"
	"sync"
	"time"

	"verifharness/hx"

	"github.com/privacybydesign/gabi/big"
	"github.com/privacybydesign/gabi/keyproof"
	"github.com/privacybydesign/gabi/safeprime"
	"github.com/privacybydesign/gabi/verifx"
)

// ---------------------------------------------------------------- challenges (Fiat-Shamir derivation; its encoding is C15's subject)

func hashNumber(a, b *gobig.Int, i int, bits uint) *gobig.Int {
	var ga, gb *big.Int
	if a != nil {
		ga = G(a)
	}
	if b != nil {
		gb = G(b)
	}
	return M(verifx.GetHashNumber(ga, gb, i, bits))
}

func roundChallenge(ch *gobig.Int, idx int64, i int, n *gobig.Int) *gobig.Int {
	return mod(hashNumber(ch, bi(idx), i, uint(n.BitLen())), n)
}

func hashList(xs []*gobig.Int) *gobig.Int { return M(verifx.HashCommit(GL(xs), false)) }

// ---------------------------------------------------------------- the round equations of KeyProof.tla, with math/big

func sfEq(n, c, y *gobig.Int) bool  { return y != nil && exp(y, n, n).Cmp(c) == 0 }
func dppEq(n, c, y *gobig.Int) bool { return y != nil && exp(y, oddPart(sub(n, b1)), n).Cmp(c) == 0 }
func pppEq(n, c, y *gobig.Int) bool {
	if y == nil {
		return false
	}
	s := mod(mul(y, y), n)
	nc := mod(new(gobig.Int).Neg(c), n)
	return s.Cmp(mod(c, n)) == 0 || s.Cmp(nc) == 0 || s.Cmp(mod(mul(b2, c), n)) == 0 || s.Cmp(mod(mul(b2, nc), n)) == 0
}

func asppEq(n, base, com, x, r *gobig.Int) bool {
	if com == nil || r == nil {
		return false
	}
	g := pow2(uint(n.BitLen()))
	y := mod(mul(com, exp(base, x, n)), n)
	yg := exp(y, g, n)
	t1 := exp(base, g, n)
	t1 = new(gobig.Int).Exp(t1, r, n)
	if t1 == nil {
		return false
	}
	t1 = new(gobig.Int).Exp(t1, r, n)
	if t1 == nil {
		return false
	}
	t2 := inv(t1, n)
	t3 := mod(mul(t1, t1), n)
	t4 := inv(t3, n)
	if t2 == nil || t4 == nil {
		return false
	}
	return t1.Cmp(yg) == 0 || t2.Cmp(yg) == 0 || t3.Cmp(yg) == 0 || t4.Cmp(yg) == 0
}

func allNonNil(xs []*gobig.Int) bool {
	for _, x := range xs {
		if x == nil {
			return false
		}
	}
	return true
}

type iters struct{ sf, ppp, dpp, aspp int }

var its = iters{keyproof.VerifSquareFreeIters, keyproof.VerifPrimePowerProductIters, keyproof.VerifDisjointPrimeProductIters, keyproof.VerifAlmostSafePrimeProductIters}

func ownSF(n, ch *gobig.Int, idx int64, resp []*gobig.Int) bool {
	if len(resp) != its.sf || !allNonNil(resp) {
		return false
	}
	for i := range resp {
		if !sfEq(n, roundChallenge(ch, idx, i, n), resp[i]) {
			return false
		}
	}
	return true
}

func ownPPP(n, ch *gobig.Int, idx int64, resp []*gobig.Int) bool {
	if len(resp) != its.ppp || !allNonNil(resp) {
		return false
	}
	for i := range resp {
		if !pppEq(n, roundChallenge(ch, idx, i, n), resp[i]) {
			return false
		}
	}
	return true
}

func ownDPP(n, ch *gobig.Int, idx int64, resp []*gobig.Int) bool {
	if len(resp) != its.dpp || !allNonNil(resp) || n.ProbablyPrime(40) {
		return false
	}
	for i := range resp {
		if !dppEq(n, roundChallenge(ch, idx, i, n), resp[i]) {
			return false
		}
	}
	return true
}

type asppProof struct {
	Nonce *gobig.Int
	Coms  []*gobig.Int
	Resp  []*gobig.Int
}

func asppBase(nonce *gobig.Int, i int, n *gobig.Int) *gobig.Int {
	return mod(hashNumber(nonce, nil, i, uint(n.BitLen())), n)
}
func asppX(ch *gobig.Int, idx int64, i int, n *gobig.Int) *gobig.Int {
	return hashNumber(ch, bi(idx), i, uint(2*n.BitLen()))
}

func ownASPP(n, ch *gobig.Int, idx int64, p asppProof) bool {
	if p.Nonce == nil || len(p.Coms) != its.aspp || len(p.Resp) != its.aspp || !allNonNil(p.Coms) || !allNonNil(p.Resp) {
		return false
	}
	if mod(n, b3).Cmp(b1) != 0 {
		return false
	}
	for i := range p.Resp {
		if !asppEq(n, asppBase(p.Nonce, i, n), p.Coms[i], asppX(ch, idx, i, n), p.Resp[i]) {
			return false
		}
	}
	return true
}

// ---------------------------------------------------------------- the real component verifiers (structure check, then proof)

func verdict(f func() bool) string {
	var ok bool
	if p, msg := hx.Try(func() { ok = f() }); p {
		return "panic: " + msg
	}
	if ok {
		return "accept"
	}
	return "reject"
}

func codeSF(n, ch *gobig.Int, idx int64, resp []*gobig.Int) string {
	pr := keyproof.SquareFreeProof{Responses: GL(resp)}
	return verdict(func() bool {
		return keyproof.VerifSquareFreeVerifyStructure(pr) && keyproof.VerifSquareFreeVerifyProof(G(n), G(ch), big.NewInt(idx), pr)
	})
}
func codePPP(n, ch *gobig.Int, idx int64, resp []*gobig.Int) string {
	pr := keyproof.PrimePowerProductProof{Responses: GL(resp)}
	return verdict(func() bool {
		return keyproof.VerifPrimePowerProductVerifyStructure(pr) && keyproof.VerifPrimePowerProductVerifyProof(G(n), G(ch), big.NewInt(idx), pr)
	})
}
func codeDPP(n, ch *gobig.Int, idx int64, resp []*gobig.Int) string {
	pr := keyproof.DisjointPrimeProductProof{Responses: GL(resp)}
	return verdict(func() bool {
		return keyproof.VerifDisjointPrimeProductVerifyStructure(pr) && keyproof.VerifDisjointPrimeProductVerifyProof(G(n), G(ch), big.NewInt(idx), pr)
	})
}
func libASPP(p asppProof) keyproof.AlmostSafePrimeProductProof {
	pr := keyproof.AlmostSafePrimeProductProof{Commitments: GL(p.Coms), Responses: GL(p.Resp)}
	if p.Nonce != nil {
		pr.Nonce = G(p.Nonce)
	}
	return pr
}
func codeASPP(n, ch *gobig.Int, idx int64, p asppProof) string {
	pr := libASPP(p)
	return verdict(func() bool {
		return keyproof.VerifAlmostSafePrimeProductVerifyStructure(pr) && keyproof.VerifAlmostSafePrimeProductVerifyProof(G(n), G(ch), big.NewInt(idx), pr)
	})
}

type qsppProof struct {
	SF, PPP, DPP []*gobig.Int
	ASPP         asppProof
}

func codeQSPP(n, ch *gobig.Int, q qsppProof) string {
	pr := keyproof.QuasiSafePrimeProductProof{
		SFproof:   keyproof.SquareFreeProof{Responses: GL(q.SF)},
		PPPproof:  keyproof.PrimePowerProductProof{Responses: GL(q.PPP)},
		DPPproof:  keyproof.DisjointPrimeProductProof{Responses: GL(q.DPP)},
		ASPPproof: libASPP(q.ASPP),
	}
	return verdict(func() bool {
		return keyproof.VerifQuasiSafePrimeProductVerifyStructure(pr) && keyproof.VerifQuasiSafePrimeProductVerifyProof(G(n), G(ch), pr)
	})
}

func ownQSPP(n, ch *gobig.Int, q qsppProof) bool {
	if mod(n, b8).Cmp(bi(5)) != 0 {
		return false
	}
	for i := int64(2); i < int64(keyproof.VerifMinimumFactor); i++ {
		if !isOne(gcd(n, bi(i))) {
			return false
		}
	}
	return ownSF(n, ch, 0, q.SF) && ownPPP(n, ch, 1, q.PPP) && ownDPP(n, ch, 2, q.DPP) && ownASPP(n, ch, 3, q.ASPP)
}

// ---------------------------------------------------------------- cheating provers that know the factorisation

type prover struct {
	rng *mrand.Rand
	n   *gobig.Int
	fs  []pp
}

func (p *prover) junk() *gobig.Int { return add(randBelow(p.rng, p.n), b0) }

// answerRoot answers rounds of the form y^e = c.
func (p *prover) roots(ch *gobig.Int, idx int64, rounds int, e *gobig.Int) (resp []*gobig.Int, answered int) {
	for i := 0; i < rounds; i++ {
		c := roundChallenge(ch, idx, i, p.n)
		y, st := rootMod(p.rng, c, e, p.fs)
		if st == rootFound && exp(y, e, p.n).Cmp(c) == 0 {
			resp = append(resp, y)
			answered++
		} else {
			resp = append(resp, p.junk())
		}
	}
	return
}

func (p *prover) sf(ch *gobig.Int, idx int64) ([]*gobig.Int, int) {
	return p.roots(ch, idx, its.sf, p.n)
}
func (p *prover) dpp(ch *gobig.Int, idx int64) ([]*gobig.Int, int) {
	return p.roots(ch, idx, its.dpp, oddPart(sub(p.n, b1)))
}
func (p *prover) ppp(ch *gobig.Int, idx int64) (resp []*gobig.Int, answered int) {
	for i := 0; i < its.ppp; i++ {
		c := roundChallenge(ch, idx, i, p.n)
		nc := mod(new(gobig.Int).Neg(c), p.n)
		var got *gobig.Int
		for _, t := range []*gobig.Int{c, nc, mod(mul(b2, c), p.n), mod(mul(b2, nc), p.n)} {
			y, st := rootMod(p.rng, t, b2, p.fs)
			if st == rootFound && pppEq(p.n, c, y) {
				got = y
				break
			}
		}
		if got != nil {
			resp = append(resp, got)
			answered++
		} else {
			resp = append(resp, p.junk())
		}
	}
	return
}

type asppCommit struct {
	nonce *gobig.Int
	bases []*gobig.Int
	logs  []*gobig.Int
	coms  []*gobig.Int
	mfs   []pp // factorisation of the odd part of the exponent of Z_N^*
}

func (p *prover) oddExponent() []pp {
	var lists [][]pp
	for _, f := range p.fs {
		if f.P.Cmp(b2) == 0 {
			continue
		}
		lists = append(lists, factorSmall(f.phi()))
	}
	var out []pp
	for _, f := range lcmFactors(lists...) {
		if f.P.Cmp(b2) != 0 {
			out = append(out, f)
		}
	}
	return out
}

func (p *prover) asppCommit(nonce *gobig.Int) *asppCommit {
	c := &asppCommit{nonce: nonce, mfs: p.oddExponent()}
	phi := phiOf(p.fs)
	for i := 0; i < its.aspp; i++ {
		b := asppBase(nonce, i, p.n)
		l := randBelow(p.rng, phi)
		c.bases = append(c.bases, b)
		c.logs = append(c.logs, l)
		c.coms = append(c.coms, exp(b, l, p.n))
	}
	return c
}

func (p *prover) asppRespond(c *asppCommit, ch *gobig.Int, idx int64) (asppProof, int) {
	pr := asppProof{Nonce: c.nonce, Coms: c.coms}
	answered := 0
	g := pow2(uint(p.n.BitLen()))
	for i := 0; i < its.aspp; i++ {
		x := asppX(ch, idx, i, p.n)
		var got *gobig.Int
		if isOne(gcd(c.bases[i], p.n)) {
			B := exp(c.bases[i], g, p.n)
			// odd order of B
			var ofs []pp
			m := product(c.mfs)
			for _, f := range c.mfs {
				k := f.K
				for k > 0 && isOne(exp(B, new(gobig.Int).Div(m, f.P), p.n)) {
					m.Div(m, f.P)
					k--
				}
				if k > 0 {
					ofs = append(ofs, pp{f.P, k})
				}
			}
			L := add(c.logs[i], x)
			if isOne(m) {
				got = bi(0)
			} else {
				for _, kappa := range []int64{1, -1, 2, -2} {
					ki := inv(mod(bi(kappa), m), m)
					if ki == nil {
						continue
					}
					if r, ok := sqrtMod(mod(mul(L, ki), m), ofs); ok {
						got = r
						break
					}
				}
			}
			if got != nil && !asppEq(p.n, c.bases[i], c.coms[i], x, got) {
				got = nil
			}
		}
		if got != nil {
			pr.Resp = append(pr.Resp, got)
			answered++
		} else {
			pr.Resp = append(pr.Resp, p.junk())
		}
	}
	return pr, answered
}

// ---------------------------------------------------------------- languages (KeyProof.tla part (a)), from the factorisation

type langs struct {
	sfMust, pppMust, dppMust, asppMust, qsppMust bool
}

func languages(n *gobig.Int, fs []pp) langs {
	var l langs
	phi := phiOf(fs)
	l.sfMust = !isOne(gcd(n, phi))
	l.pppMust = distinctOddPrimes(fs) >= 3 // the claims of KeyProof.tla are about odd N; an even N falls to N = 5 (mod 8)
	prime := len(fs) == 1 && fs[0].K == 1
	l.dppMust = prime || !isOne(gcd(oddPart(sub(n, b1)), phi))
	pr := prover{n: n, fs: fs}
	l.asppMust = mod(n, b3).Cmp(b1) != 0 || len(pr.oddExponent()) >= 3
	small := false
	for _, f := range fs {
		if f.P.Cmp(bi(int64(keyproof.VerifMinimumFactor))) < 0 {
			small = true
		}
	}
	l.qsppMust = l.sfMust || l.pppMust || l.dppMust || l.asppMust || small || mod(n, b8).Cmp(bi(5)) != 0
	return l
}

// ---------------------------------------------------------------- prime generation for bad moduli (own code)

func randPrime(rng *mrand.Rand, bits int, cond func(p *gobig.Int) bool) *gobig.Int {
	for tries := 0; tries < 2000000; tries++ {
		p := randBits(rng, bits)
		p.SetBit(p, 0, 1)
		if p.ProbablyPrime(24) && (cond == nil || cond(p)) {
			return p
		}
	}
	hx.Fatal("no prime of %d bits found", bits)
	return nil
}

func randSafePrime(rng *mrand.Rand, bits int, cond func(p *gobig.Int) bool) *gobig.Int {
	for tries := 0; tries < 20000000; tries++ {
		q := randBits(rng, bits-1)
		q.SetBit(q, 0, 1)
		if !q.ProbablyPrime(8) {
			continue
		}
		p := add(mul(b2, q), b1)
		if p.ProbablyPrime(24) && q.ProbablyPrime(24) && (cond == nil || cond(p)) {
			return p
		}
	}
	hx.Fatal("no safe prime of %d bits found", bits)
	return nil
}

func m8(x *gobig.Int) int64 { return mod(x, b8).Int64() }
func half(p *gobig.Int) *gobig.Int {
	return new(gobig.Int).Rsh(p, 1)
}

type badModulus struct {
	shape string
	fs    []pp
	note  string
	grind bool // D14: grind the nonce until a base shares the small factor
}

func badModuli(rng *mrand.Rand, thorough bool) []badModulus {
	var out []badModulus
	reps := 1
	if thorough {
		reps = 4
	}
	ge1031 := func(p *gobig.Int) bool { return p.Cmp(bi(1031)) >= 0 }
	for r := 0; r < reps; r++ {
		q := randSafePrime(rng, 44, nil)
		p12 := randPrime(rng, 12+r%3, ge1031)
		out = append(out, badModulus{"p^2*q", []pp{{p12, 2}, {q, 1}}, "not square-free", false})
		pa := randPrime(rng, 13+r%3, ge1031)
		pb := randPrime(rng, 15, func(p *gobig.Int) bool { return p.Cmp(pa) != 0 })
		out = append(out, badModulus{"p*q*r", []pp{{pa, 1}, {pb, 1}, {q, 1}}, "third prime factor", false})
		out = append(out, badModulus{"p^3", []pp{{randPrime(rng, 16, nil), 3}}, "single prime power", false})
		out = append(out, badModulus{"p", []pp{{randPrime(rng, 48, nil), 1}}, "prime", false})
		out = append(out, badModulus{"p^2*q^2", []pp{{randPrime(rng, 14, ge1031), 2}, {randPrime(rng, 20, nil), 2}}, "two prime squares", false})
		// P = 2ab+1 with a, b primes: (P-1)/2 is not a prime power
		var P, a, b *gobig.Int
		for {
			a = randPrime(rng, 11+r%2, nil)
			b = randPrime(rng, 13, func(p *gobig.Int) bool { return p.Cmp(a) != 0 })
			P = add(mul(b2, mul(a, b)), b1)
			if P.ProbablyPrime(24) {
				break
			}
		}
		Q := randSafePrime(rng, 40, func(q *gobig.Int) bool { return mod(mul(P, q), b3).Cmp(b1) == 0 })
		out = append(out, badModulus{"(2ab+1)*q", []pp{{P, 1}, {Q, 1}}, "factor not an almost safe prime", false})
		// P = 4p'+1 (P = 5 mod 8): every sub-protocol is satisfiable, only N = 5 (mod 8) stands in the way
		for tries := 0; ; tries++ {
			pq := randPrime(rng, 30, func(p *gobig.Int) bool { return m8(p) != 1 })
			P5 := add(mul(bi(4), pq), b1)
			if !P5.ProbablyPrime(24) {
				continue
			}
			Q5 := randSafePrime(rng, 40, nil)
			n := mul(P5, Q5)
			qq := half(Q5)
			if m8(Q5) == m8(P5) || m8(Q5) == 1 || m8(qq) == 1 || m8(qq) == m8(pq) || mod(n, b3).Cmp(b1) != 0 {
				continue
			}
			fs := []pp{{P5, 1}, {Q5, 1}}
			if !isOne(gcd(oddPart(sub(n, b1)), phiOf(fs))) || !isOne(gcd(n, phiOf(fs))) {
				continue
			}
			out = append(out, badModulus{"(4p+1)*q", fs, "only N = 5 (mod 8) excludes it", false})
			break
		}
		// a genuine safe-prime product with the factor 1019 < 1024: only the minimum-factor rule excludes it
		Q19 := randSafePrime(rng, 44, func(q *gobig.Int) bool {
			fs := []pp{{bi(1019), 1}, {q, 1}}
			n := product(fs)
			return m8(q) == 7 && (m8(half(q)) == 3 || m8(half(q)) == 7) && isOne(gcd(oddPart(sub(n, b1)), phiOf(fs))) && isOne(gcd(n, phiOf(fs)))
		})
		out = append(out, badModulus{"1019*q", []pp{{bi(1019), 1}, {Q19, 1}}, "only the minimum-factor rule excludes it", false})
		out = append(out, badModulus{"2*p*q", []pp{{b2, 1}, {randSafePrime(rng, 30, nil), 1}, {q, 1}}, "even", false})
		out = append(out, badModulus{"3*q", []pp{{b3, 1}, {q, 1}}, "small factor", false})
		// 7*q: a safe-prime product with N = 2 (mod 3) and a tiny factor
		Q7 := randSafePrime(rng, 44, func(q *gobig.Int) bool { return (m8(half(q)) == 5 || m8(half(q)) == 7) && m8(q) != 7 })
		out = append(out, badModulus{"7*q", []pp{{bi(7), 1}, {Q7, 1}}, "N = 2 (mod 3), factor 7", false})
		out = append(out, badModulus{"1031*q", []pp{{bi(1031), 1}, {q, 1}}, "nonce ground so that a base is 0 mod 1031 (D14)", true})
	}
	return out
}

// ---------------------------------------------------------------- the run

func gennaro(a *hx.Args, in *input, res *hx.Result) {
	thorough := a.Tier == "thorough"
	if in.Params != nil {
		checkParams(in.Params, res)
	}
	t0 := time.Now()
	toyModuli(a, in, res, thorough)
	res.Notes["toy_s"] = time.Since(t0).Seconds()
	t0 = time.Now()
	mediumModuli(a, res, thorough)
	res.Notes["medium_s"] = time.Since(t0).Seconds()
	t0 = time.Now()
	honestComponents(a, res, thorough)
	res.Notes["honest_s"] = time.Since(t0).Seconds()
}

// the iteration counts of the code must deliver at least the error budget the specification states
func checkParams(p *params, res *hx.Result) {
	type row struct {
		name       string
		spec, code int
	}
	for _, r := range []row{{"squareFreeIters", p.SF, its.sf}, {"primePowerProductIters", p.PPP, its.ppp}, {"disjointPrimeProductIters", p.DPP, its.dpp},
		{"almostSafePrimeProductIters", p.ASPP, its.aspp}, {"minimumFactor", p.MinFactor, keyproof.VerifMinimumFactor},
		{"rangeProofIters", p.RangeIters, keyproof.VerifRangeProofIters}, {"rangeProofEpsilon", p.RangeEps, keyproof.VerifRangeProofEpsilon},
		{"almostSafePrimeProductNonceSize", p.Nonce, keyproof.VerifAlmostSafePrimeProductNonceSize}} {
		res.Eval("")
		if r.code < r.spec {
			res.Violation("soundness-budget", fmt.Sprintf("%s = %d in the code, the error bounds of KeyProof.tla assume %d", r.name, r.code, r.spec), hx.M{"part": "gennaro", "param": r.name})
		}
	}
}

func report(res *hx.Result, kind, what string, d hx.M) {
	d["part"] = "gennaro"
	res.Violation(kind, what, d)
}

// compare the component's verdict with the round equations; must: the language excludes this modulus
func judge(res *hx.Result, comp string, code string, own bool, must bool, d0 hx.M) {
	d := hx.M{}
	for k, v := range d0 {
		d[k] = v
	}
	d["component"] = comp
	d["code"] = code
	d["own"] = own
	switch {
	case len(code) >= 5 && code[:5] == "panic":
		report(res, "panic", fmt.Sprintf("%s verifier panicked on modulus %v (%v): %s", comp, d["n"], d["shape"], code), d)
	case code == "accept" && !own:
		report(res, "bad-accepted", fmt.Sprintf("%s verifier accepted a proof that fails its round equations or plain checks, modulus %v (%v)", comp, d["n"], d["shape"]), d)
	case code == "reject" && own:
		report(res, "good-rejected", fmt.Sprintf("%s verifier rejected responses that satisfy all its round equations, modulus %v (%v)", comp, d["n"], d["shape"]), d)
	case code == "accept" && must:
		res.Count(fmt.Sprintf("lucky:%v:%s:%v", d["sub"], comp, d["shape"])) // every round answerable although the language excludes the modulus
	}
	res.Count(comp + ":" + code)
}

// ---------------------------------------------------------------- toy moduli (TLC "N" records)

func toyModuli(a *hx.Args, in *input, res *hx.Result, thorough bool) {
	if len(in.Mods) == 0 {
		return
	}
	T := 3
	if thorough {
		T = 12
	}
	var mu sync.Mutex
	disagreements := []string{}
	hx.Parallel(len(in.Mods), func(k int) {
		mc := in.Mods[k]
		n := mc.N
		rng := hx.Rng(a.Seed, fmt.Sprintf("toy/%d", n))
		// brute force of the answerable unit challenges, compared with TLC's numbers
		u := iunits(n)
		sfImg, pppSq, dppImg := map[int]bool{}, map[int]bool{}, map[int]bool{}
		on := ioddPart(n - 1)
		for _, y := range u {
			sfImg[ipow(y, n, n)] = true
			pppSq[y*y%n] = true
			dppImg[ipow(y, on, n)] = true
		}
		cppp := 0
		for _, x := range u {
			if pppSq[x] || pppSq[(n-x)%n] || pppSq[2*x%n] || pppSq[2*(n-x)%n] {
				cppp++
			}
		}
		pf := iprimeFactors(n)
		phi := len(u)
		oddphi := iprimeFactors(ioddPart(phi))
		mine := modCase{N: n, Units: len(u), Prime: iprime(n), NPrimes: len(pf), InSF: igcd(n, phi) == 1, PPPMust: len(pf) >= 3,
			InDPP: !iprime(n) && igcd(on, phi) == 1, ASPPMust: n%3 != 1 || len(oddphi) >= 3, CSF: len(sfImg), CPPP: cppp, CDPP: len(dppImg), OddPhiPrimes: len(oddphi)}
		mine.InPPP, mine.Provable = mc.InPPP, mc.Provable
		if mine != mc {
			mu.Lock()
			disagreements = append(disagreements, fmt.Sprintf("n=%d spec=%+v harness=%+v", n, mc, mine))
			mu.Unlock()
			return
		}
		N := bi(int64(n))
		for t := 0; t < T; t++ {
			ch := randBits(rng, 256)
			d := func() hx.M { return hx.M{"sub": "toy", "n": n, "shape": "toy", "challenge": ch.String()} }
			// SF / PPP / DPP: brute-force prover
			brute := func(idx int64, rounds int, eq func(c, y int) bool) ([]*gobig.Int, bool) {
				var resp []*gobig.Int
				all := true
				for i := 0; i < rounds; i++ {
					c := int(roundChallenge(ch, idx, i, N).Int64())
					found := -1
					for y := 0; y < n; y++ {
						if eq(c, y) {
							found = y
							break
						}
					}
					if found < 0 {
						all = false
						found = rng.Intn(n)
					}
					resp = append(resp, bi(int64(found)))
				}
				return resp, all
			}
			r, all := brute(0, its.sf, func(c, y int) bool { return ipow(y, n, n) == c })
			res.Eval(fmt.Sprintf("toy/sf/%d", n))
			judge(res, "SF", codeSF(N, ch, 0, r), all && ownSF(N, ch, 0, r), !mc.InSF, d())
			if all != ownSF(N, ch, 0, r) {
				hx.Fatal("harness: brute force and round equation disagree (SF, n=%d)", n)
			}
			if mc.InSF && !all {
				hx.Fatal("KeyProof.tla claims every challenge answerable for n=%d in the SF language; brute force disagrees", n)
			}
			r, all = brute(1, its.ppp, func(c, y int) bool {
				s := y * y % n
				return s == c%n || s == (n-c)%n || s == 2*c%n || s == 2*(n-c)%n
			})
			res.Eval(fmt.Sprintf("toy/ppp/%d", n))
			judge(res, "PPP", codePPP(N, ch, 1, r), all, mc.PPPMust, d())
			if all != ownPPP(N, ch, 1, r) {
				hx.Fatal("harness: brute force and round equation disagree (PPP, n=%d)", n)
			}
			r, all = brute(2, its.dpp, func(c, y int) bool { return ipow(y, on, n) == c })
			all = all && !iprime(n)
			res.Eval(fmt.Sprintf("toy/dpp/%d", n))
			judge(res, "DPP", codeDPP(N, ch, 2, r), all, !mc.InDPP, d())
			if all != ownDPP(N, ch, 2, r) {
				hx.Fatal("harness: brute force and round equation disagree (DPP, n=%d)", n)
			}
			// ASPP: commitments first, then the challenge
			nonce := randBits(rng, 256)
			pr := asppProof{Nonce: nonce}
			var logs []int
			for i := 0; i < its.aspp; i++ {
				l := rng.Intn(n)
				logs = append(logs, l)
				pr.Coms = append(pr.Coms, exp(asppBase(nonce, i, N), bi(int64(l)), N))
			}
			ch2 := hashList(pr.Coms)
			allA := n%3 == 1
			for i := 0; i < its.aspp; i++ {
				found := -1
				if allA {
					b := asppBase(nonce, i, N)
					x := asppX(ch2, 3, i, N)
					for rr := 0; rr < n; rr++ {
						if asppEq(N, b, pr.Coms[i], x, bi(int64(rr))) {
							found = rr
							break
						}
					}
				}
				if found < 0 {
					allA = false
					found = rng.Intn(n)
				}
				pr.Resp = append(pr.Resp, bi(int64(found)))
			}
			res.Eval(fmt.Sprintf("toy/aspp/%d", n))
			dd := d()
			dd["nonce"] = nonce.String()
			judge(res, "ASPP", codeASPP(N, ch2, 3, pr), allA, mc.ASPPMust, dd)
		}
		res.Count("toy-moduli")
	})
	if len(disagreements) > 0 {
		hx.Fatal("specification and harness disagree on toy number theory: %v", disagreements[:1])
	}
	res.Notes["toy_moduli"] = len(in.Mods)
}

// ---------------------------------------------------------------- medium-size bad moduli, provers that know the factorisation

func mediumModuli(a *hx.Args, res *hx.Result, thorough bool) {
	rng := hx.Rng(a.Seed, "bad-moduli")
	list := badModuli(rng, thorough)
	// a control: a genuine key; the generic provers must convince every component (else the provers are broken)
	P := randSafePrime(rng, 48, func(p *gobig.Int) bool { return m8(half(p)) != 1 })
	Q := randSafePrime(rng, 48, func(q *gobig.Int) bool {
		return m8(q) != m8(P) && m8(half(q)) != 1 && m8(half(q)) != m8(half(P)) && q.Cmp(P) != 0
	})
	list = append(list, badModulus{"control", []pp{{P, 1}, {Q, 1}}, "genuine key", false})
	shapes := map[string]bool{}
	var mu sync.Mutex
	hx.Parallel(len(list), func(k int) {
		bm := list[k]
		n := product(bm.fs)
		lg := languages(n, bm.fs)
		pv := &prover{rng: hx.Rng(a.Seed, fmt.Sprintf("bad/%d/%s", k, bm.shape)), n: n, fs: bm.fs}
		trials := 2
		if thorough {
			trials = 6
		}
		for t := 0; t < trials; t++ {
			// commitments first
			nonce := randBits(pv.rng, 256)
			// a cheating prover grinds the nonce until every base is a unit (hopeless with a tiny factor)
			for tries := 0; tries < 64; tries++ {
				units := true
				for i := 0; i < its.aspp && units; i++ {
					units = isOne(gcd(asppBase(nonce, i, n), n))
				}
				if units {
					break
				}
				nonce = randBits(pv.rng, 256)
			}
			if bm.grind {
				small := bm.fs[0].P
				for g := int64(0); ; g++ {
					nonce = bi(g)
					hit := false
					for i := 0; i < its.aspp; i++ {
						if mod(asppBase(nonce, i, n), small).Sign() == 0 {
							hit = true
							break
						}
					}
					if hit {
						break
					}
				}
			}
			cm := pv.asppCommit(nonce)
			ch := hashList(cm.coms)
			d := func() hx.M {
				return hx.M{"sub": "medium", "shape": bm.shape, "note": bm.note, "n": n.String(), "factors": fmt.Sprint(bm.fs), "challenge": ch.String(), "nonce": nonce.String()}
			}
			var q qsppProof
			var n1, n2, n3, n4 int
			q.SF, n1 = pv.sf(ch, 0)
			q.PPP, n2 = pv.ppp(ch, 1)
			q.DPP, n3 = pv.dpp(ch, 2)
			q.ASPP, n4 = pv.asppRespond(cm, ch, 3)
			res.Eval("bad/" + bm.shape + "/sf")
			judge(res, "SF", codeSF(n, ch, 0, q.SF), ownSF(n, ch, 0, q.SF), lg.sfMust, d())
			res.Eval("bad/" + bm.shape + "/ppp")
			judge(res, "PPP", codePPP(n, ch, 1, q.PPP), ownPPP(n, ch, 1, q.PPP), lg.pppMust, d())
			res.Eval("bad/" + bm.shape + "/dpp")
			judge(res, "DPP", codeDPP(n, ch, 2, q.DPP), ownDPP(n, ch, 2, q.DPP), lg.dppMust, d())
			res.Eval("bad/" + bm.shape + "/aspp")
			judge(res, "ASPP", codeASPP(n, ch, 3, q.ASPP), ownASPP(n, ch, 3, q.ASPP), lg.asppMust, d())
			res.Eval("bad/" + bm.shape + "/qspp")
			judge(res, "QSPP", codeQSPP(n, ch, q), ownQSPP(n, ch, q), lg.qsppMust, d())
			if bm.shape == "control" {
				if n1 != its.sf || n2 != its.ppp || n3 != its.dpp || n4 != its.aspp || !ownQSPP(n, ch, q) {
					hx.Fatal("the harness' provers cannot convince their own equations on a genuine key %v (answered %d %d %d %d)", n, n1, n2, n3, n4)
				}
			}
			if (bm.shape == "(4p+1)*q" || bm.shape == "1019*q") && (n1 != its.sf || n2 != its.ppp || n3 != its.dpp || n4 != its.aspp) {
				hx.Fatal("shape %s: the prover should answer every round (answered %d %d %d %d), modulus %v", bm.shape, n1, n2, n3, n4, n)
			}
			res.Sample(hx.M{"shape": bm.shape, "n": n.String(), "answered": []int{n1, n2, n3, n4}, "must_reject": fmt.Sprintf("%+v", lg)})
		}
		mu.Lock()
		shapes[bm.shape] = true
		mu.Unlock()
	})
	res.Notes["bad_shapes"] = len(shapes)
}

// ---------------------------------------------------------------- honest component proofs, every response altered

type goodKey struct {
	P, Q, Pp, Qp, N *gobig.Int
}

func genGoodKey(bits int) goodKey {
	deadline := make(chan struct{})
	timer := time.AfterFunc(240*time.Second, func() { close(deadline) })
	defer timer.Stop()
	gen := func(ok func(p *gobig.Int) bool) *gobig.Int {
		for {
			p, err := safeprime.Generate(bits, deadline)
			if err != nil || p == nil {
				hx.Fatal("safe prime generation (%d bits): %v", bits, err)
			}
			P := M(p)
			if !P.ProbablyPrime(40) || !half(P).ProbablyPrime(40) {
				hx.Fatal("safeprime.Generate returned %v, not a safe prime", P)
			}
			if ok(P) {
				return P
			}
		}
	}
	// the conditions of keyproof.CanProve, evaluated here
	P := gen(func(p *gobig.Int) bool { return m8(p) != 1 && m8(half(p)) != 1 })
	Q := gen(func(q *gobig.Int) bool {
		return q.Cmp(P) != 0 && m8(q) != 1 && m8(half(q)) != 1 && m8(q) != m8(P) && m8(half(q)) != m8(half(P))
	})
	return goodKey{P, Q, half(P), half(Q), mul(P, Q)}
}

func honestComponents(a *hx.Args, res *hx.Result, thorough bool) {
	nk := 2
	if thorough {
		nk = 8
	}
	hx.Parallel(nk, func(k int) {
		rng := hx.Rng(a.Seed, fmt.Sprintf("honest/%d", k))
		bits := 48 + rng.Intn(49)
		if k == 0 {
			bits = 48
		}
		key := genGoodKey(bits)
		n := key.N
		d := func(extra hx.M) hx.M {
			m := hx.M{"sub": "honest", "shape": "genuine key", "n": n.String(), "p": key.P.String(), "q": key.Q.String()}
			for k, v := range extra {
				m[k] = v
			}
			return m
		}
		// the library's own prover
		var list []*big.Int
		var commit keyproof.VerifQuasiSafePrimeProductCommit
		var lp keyproof.QuasiSafePrimeProductProof
		var ch *gobig.Int
		if p, msg := hx.Try(func() {
			list, commit = keyproof.VerifQuasiSafePrimeProductBuildCommitments(nil, G(key.Pp), G(key.Qp))
			ch = M(verifx.HashCommit(list, false))
			lp = keyproof.VerifQuasiSafePrimeProductBuildProof(G(key.Pp), G(key.Qp), G(ch), commit)
		}); p {
			report(res, "honest-panic", "building the quasi-safe-prime-product proof of a genuine key panicked: "+msg, d(nil))
			return
		}
		q := qsppProof{SF: ML(lp.SFproof.Responses), PPP: ML(lp.PPPproof.Responses), DPP: ML(lp.DPPproof.Responses),
			ASPP: asppProof{Nonce: M(lp.ASPPproof.Nonce), Coms: ML(lp.ASPPproof.Commitments), Resp: ML(lp.ASPPproof.Responses)}}
		res.Eval("")
		if v := codeQSPP(n, ch, q); v != "accept" || !ownQSPP(n, ch, q) {
			report(res, "honest-rejected", fmt.Sprintf("honest quasi-safe-prime-product proof of a genuine %d-bit key: verifier %s, round equations %v", n.BitLen(), v, ownQSPP(n, ch, q)), d(nil))
			return
		}
		type comp struct {
			name string
			idx  int64
			resp *[]*gobig.Int
			code func() string
			own  func() bool
			mod  *gobig.Int // modulus of the natural domain
			neg  bool       // response determined up to sign
		}
		order := mul(key.Pp, key.Qp)
		q0 := q
		makeComps := func(q *qsppProof) []comp {
			return []comp{
				{"SF", 0, &q.SF, func() string { return codeSF(n, ch, 0, q.SF) }, func() bool { return ownSF(n, ch, 0, q.SF) }, n, false},
				{"PPP", 1, &q.PPP, func() string { return codePPP(n, ch, 1, q.PPP) }, func() bool { return ownPPP(n, ch, 1, q.PPP) }, n, true},
				{"DPP", 2, &q.DPP, func() string { return codeDPP(n, ch, 2, q.DPP) }, func() bool { return ownDPP(n, ch, 2, q.DPP) }, n, false},
				{"ASPP", 3, &q.ASPP.Resp, func() string { return codeASPP(n, ch, 3, q.ASPP) }, func() bool { return ownASPP(n, ch, 3, q.ASPP) }, order, true},
				{"ASPP-commitment", 3, &q.ASPP.Coms, func() string { return codeASPP(n, ch, 3, q.ASPP) }, func() bool { return ownASPP(n, ch, 3, q.ASPP) }, n, false},
			}
		}
		hx.Parallel(5, func(ci int) {
			qc := qsppProof{SF: append([]*gobig.Int{}, q0.SF...), PPP: append([]*gobig.Int{}, q0.PPP...), DPP: append([]*gobig.Int{}, q0.DPP...),
				ASPP: asppProof{Nonce: q0.ASPP.Nonce, Coms: append([]*gobig.Int{}, q0.ASPP.Coms...), Resp: append([]*gobig.Int{}, q0.ASPP.Resp...)}}
			q := &qc
			c := makeComps(q)[ci]
			rng := hx.Rng(a.Seed, fmt.Sprintf("honest/%d/%d", k, ci))
			for i := range *c.resp {
				// the 250-round protocol is expensive: quick runs alter the first and last two rounds and a seeded fifth of the rest
				if L := len(*c.resp); !thorough && L > 100 && i > 1 && i < L-2 && rng.Intn(5) != 0 {
					continue
				}
				orig := (*c.resp)[i]
				alts := []struct {
					kind string
					v    *gobig.Int
					same bool
				}{{"plus1", add(orig, b1), false}, {"random", randBelow(rng, n), false}, {"shift", add(orig, c.mod), true}, {"negmod", sub(c.mod, orig), c.neg}}
				for _, al := range alts {
					if al.kind != "plus1" && ((!thorough && i%7 != int(a.Seed%7)) || (thorough && len(*c.resp) > 100 && i%5 != int(a.Seed%5))) {
						continue
					}
					(*c.resp)[i] = al.v
					code, own := c.code(), c.own()
					res.Eval(fmt.Sprintf("honest/%s/%s/%d", c.name, al.kind, i))
					dd := d(hx.M{"index": i, "alteration": al.kind, "challenge": ch.String()})
					if !al.same && own {
						// an altered response that still satisfies the equation (e.g. another root): not an alteration in the domain
						res.Count("altered-response-still-valid")
					}
					judge(res, c.name, code, own, false, dd)
					if !al.same && code == "accept" {
						res.Count("altered-accepted:" + c.name)
					}
					// and through the conjunction with the plain checks
					if al.kind == "plus1" && (thorough || len(*c.resp) < 100 || i%5 == 0) {
						judge(res, "QSPP", codeQSPP(n, ch, *q), ownQSPP(n, ch, *q), false, dd)
					}
					(*c.resp)[i] = orig
				}
			}
			// containers
			full := *c.resp
			for _, st := range []struct {
				kind string
				v    []*gobig.Int
			}{{"truncate", full[:len(full)-1]}, {"extend", append(append([]*gobig.Int{}, full...), full[len(full)-1])}, {"nilelem", append(append([]*gobig.Int{}, full[:len(full)-1]...), nil)}, {"empty", nil}} {
				*c.resp = st.v
				res.Eval(fmt.Sprintf("honest/%s/%s", c.name, st.kind))
				judge(res, c.name, c.code(), c.own(), false, d(hx.M{"alteration": st.kind}))
				judge(res, "QSPP", codeQSPP(n, ch, *q), ownQSPP(n, ch, *q), false, d(hx.M{"alteration": st.kind, "component": c.name}))
				*c.resp = full
			}
		})
		// nonce
		on := q.ASPP.Nonce
		for _, v := range []*gobig.Int{add(on, b1), randBits(rng, 256), nil} {
			q.ASPP.Nonce = v
			res.Eval("honest/ASPP/nonce")
			judge(res, "ASPP", codeASPP(n, ch, 3, q.ASPP), ownASPP(n, ch, 3, q.ASPP), false, d(hx.M{"alteration": "nonce"}))
		}
		q.ASPP.Nonce = on
		// another modulus, another challenge, another index
		other := genGoodKey(bits)
		for _, v := range []struct {
			what string
			n    *gobig.Int
			ch   *gobig.Int
		}{{"other modulus", other.N, ch}, {"other challenge", n, add(ch, b1)}} {
			res.Eval("honest/qspp/" + v.what)
			judge(res, "QSPP", codeQSPP(v.n, v.ch, q), ownQSPP(v.n, v.ch, q), false, d(hx.M{"alteration": v.what}))
		}
		res.Eval("honest/sf/other index")
		judge(res, "SF", codeSF(n, ch, 1, q.SF), ownSF(n, ch, 1, q.SF), false, d(hx.M{"alteration": "other index"}))
		res.Sample(hx.M{"honest_key_bits": n.BitLen(), "n": n.String()})
	})
}
