package hx

import (
	"reflect"

	"github.com/privacybydesign/gabi/big"
)

// Overwrite changes the object dst points to into the content of src the way a caller outside the
// package can: exported field by exported field. A *big.Int that both sides have is overwritten in
// place (dst's big.Int keeps its identity), everything else is assigned. Unexported fields of dst -
// memoised verdicts, caches - are not touched, exactly as when a second message is decoded into a
// variable that was used before or when a value is edited in place. After Overwrite the exported
// content of dst equals that of src; a verification of dst has to give the verdict of src.
func Overwrite(dst, src any) {
	d, s := reflect.ValueOf(dst).Elem(), reflect.ValueOf(src).Elem()
	bigT := reflect.TypeOf((*big.Int)(nil))
	for i := 0; i < d.NumField(); i++ {
		if !d.Type().Field(i).IsExported() {
			continue
		}
		df, sf := d.Field(i), s.Field(i)
		if df.Type() == bigT && !df.IsNil() && !sf.IsNil() {
			df.Interface().(*big.Int).Set(sf.Interface().(*big.Int))
			continue
		}
		df.Set(sf)
	}
}
