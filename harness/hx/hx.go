// Package hx holds what all property harnesses share: argument parsing, the result file, key
// material, panic capture and a parallel map. Nothing in here decides a property.
package hx

import (
	"bufio"
	crand "crypto/rand"
	"crypto/sha256"
	_ "embed"
	"encoding/hex"
	"encoding/json"
	"flag"
	"fmt"
	mrand "math/rand"
	"os"
	"runtime"
	"runtime/debug"
	"sort"
	"strings"
	"sync"
	"time"

	"github.com/privacybydesign/gabi"
	"github.com/privacybydesign/gabi/big"
	"github.com/privacybydesign/gabi/gabikeys"
	"github.com/privacybydesign/gabi/revocation"
	"github.com/privacybydesign/gabi/safeprime"
	"github.com/privacybydesign/gabi/signed"
	"github.com/sirupsen/logrus"
)

//go:embed testdata/xmlPrivKey1.xml
var xmlPrivKey1 string

//go:embed testdata/xmlPubKey1.xml
var xmlPubKey1 string

//go:embed testdata/xmlPrivKey2.xml
var xmlPrivKey2 string

//go:embed testdata/xmlPubKey2.xml
var xmlPubKey2 string

//go:embed testdata/key3.json
var key3json []byte

//go:embed testdata/pk2048.xml
var xmlPub2048 string

//go:embed testdata/sk2048.xml
var xmlPriv2048 string

func init() {
	gabi.Logger.SetLevel(logrus.FatalLevel)
}

// ---------------------------------------------------------------- arguments / result

type Args struct {
	In, Out, Tier string
	Seed          int64
	N             int
	Rest          []string
}

func ParseArgs() *Args {
	a := &Args{}
	flag.StringVar(&a.In, "in", "", "input cases (ndjson)")
	flag.StringVar(&a.Out, "out", "", "result file (json)")
	flag.StringVar(&a.Tier, "tier", "quick", "quick|thorough")
	flag.Int64Var(&a.Seed, "seed", 1, "seed")
	flag.IntVar(&a.N, "n", 0, "volume parameter")
	flag.Parse()
	a.Rest = flag.Args()
	return a
}

type M = map[string]any

type Result struct {
	mu                 sync.Mutex
	Evaluations        int            `json:"evaluations"`
	DistinctNontrivial int            `json:"distinct_nontrivial"`
	Traces             int            `json:"traces"`
	Violations         []M            `json:"violations"`
	Samples            []any          `json:"samples"`
	Notes              M              `json:"notes,omitempty"`
	Counts             map[string]int `json:"counts,omitempty"`
	nontrivial         map[string]struct{}
}

func NewResult() *Result {
	return &Result{Notes: M{}, Counts: map[string]int{}, nontrivial: map[string]struct{}{}, Violations: []M{}, Samples: []any{}}
}

// Eval counts one executed case; key != "" marks it as a distinct non-trivial case.
func (r *Result) Eval(nontrivialKey string) {
	r.mu.Lock()
	r.Evaluations++
	r.Traces++
	if nontrivialKey != "" {
		r.nontrivial[nontrivialKey] = struct{}{}
	}
	r.mu.Unlock()
}

func (r *Result) Count(k string) {
	r.mu.Lock()
	r.Counts[k]++
	r.mu.Unlock()
}

func (r *Result) Sample(s any) {
	r.mu.Lock()
	if len(r.Samples) < 5 {
		r.Samples = append(r.Samples, s)
	}
	r.mu.Unlock()
}

func (r *Result) Violation(kind, what string, detail M) {
	r.mu.Lock()
	if len(r.Violations) < 400 && r.Counts["violations:"+kind] < 40 { // per-kind cap: one systematic deviation must not crowd out the others
		v := M{"kind": kind, "what": what}
		for k, x := range detail {
			v[k] = x
		}
		r.Violations = append(r.Violations, v)
	}
	r.Counts["violations:"+kind]++
	r.mu.Unlock()
}

func (r *Result) Write(path string) {
	r.DistinctNontrivial = len(r.nontrivial)
	b, err := json.MarshalIndent(r, "", " ")
	if err != nil {
		Fatal("marshal result: %v", err)
	}
	if err := os.WriteFile(path, b, 0o644); err != nil {
		Fatal("write result: %v", err)
	}
}

// Fatal reports a failure of the machinery (exit 3, which the driver maps to exit 2).
func Fatal(f string, a ...any) {
	fmt.Fprintf(os.Stderr, "HARNESS-FAILURE: "+f+"\n", a...)
	os.Exit(3)
}

func ReadNDJSON(path string) []json.RawMessage {
	f, err := os.Open(path)
	if err != nil {
		Fatal("open %s: %v", path, err)
	}
	defer f.Close()
	var out []json.RawMessage
	sc := bufio.NewScanner(f)
	sc.Buffer(make([]byte, 1<<20), 1<<28)
	for sc.Scan() {
		l := strings.TrimSpace(sc.Text())
		if l == "" {
			continue
		}
		out = append(out, json.RawMessage([]byte(l)))
	}
	return out
}

func Digest(b []byte) string {
	h := sha256.Sum256(b)
	return hex.EncodeToString(h[:6])
}

// Try runs f and converts a panic into (true, message).
func Try(f func()) (panicked bool, msg string) {
	defer func() {
		if r := recover(); r != nil {
			panicked = true
			st := string(debug.Stack())
			// keep the frames that tell where it happened
			lines := strings.Split(st, "\n")
			var keep []string
			for _, l := range lines {
				if strings.Contains(l, "/repo/") || strings.Contains(l, "gabi") || (strings.Contains(l, ".go:") && !strings.Contains(l, "/runtime/") && !strings.Contains(l, "verifharness")) {
					keep = append(keep, strings.TrimSpace(l))
				}
				if len(keep) >= 6 {
					break
				}
			}
			msg = fmt.Sprintf("%v @ %s", r, strings.Join(keep, " | "))
		}
	}()
	f()
	return
}

// Parallel runs fn(i) for i in [0,n) on all cores.
func Parallel(n int, fn func(i int)) {
	w := runtime.NumCPU()
	if w > n {
		w = n
	}
	if w < 1 {
		w = 1
	}
	var wg sync.WaitGroup
	ch := make(chan int, 256)
	for k := 0; k < w; k++ {
		wg.Add(1)
		go func() {
			defer wg.Done()
			for i := range ch {
				fn(i)
			}
		}()
	}
	for i := 0; i < n; i++ {
		ch <- i
	}
	close(ch)
	wg.Wait()
}

func Rng(seed int64, salt string) *mrand.Rand {
	h := sha256.Sum256([]byte(fmt.Sprintf("%d/%s", seed, salt)))
	var s int64
	for i := 0; i < 8; i++ {
		s = s<<8 | int64(h[i])
	}
	return mrand.New(mrand.NewSource(s))
}

func SortedKeys[V any](m map[int]V) []int {
	ks := make([]int, 0, len(m))
	for k := range m {
		ks = append(ks, k)
	}
	sort.Ints(ks)
	return ks
}

// ---------------------------------------------------------------- keys

type KeyPair struct {
	SK *gabikeys.PrivateKey
	PK *gabikeys.PublicKey
}

var (
	keysOnce sync.Once
	keys1024 []KeyPair
)

// Keys1024 returns the two fixed 1024-bit key pairs of the repository's own tests (6 bases each),
// with a revocation key pair added.
func Keys1024() []KeyPair {
	keysOnce.Do(func() {
		for _, x := range [][2]string{{xmlPrivKey1, xmlPubKey1}, {xmlPrivKey2, xmlPubKey2}} {
			sk, err := gabikeys.NewPrivateKeyFromXML(x[0], false)
			if err != nil {
				Fatal("fixed private key: %v", err)
			}
			pk, err := gabikeys.NewPublicKeyFromXML(x[1])
			if err != nil {
				Fatal("fixed public key: %v", err)
			}
			if !sk.RevocationSupported() {
				if err := gabikeys.GenerateRevocationKeypair(sk, pk); err != nil {
					Fatal("revocation keypair: %v", err)
				}
			}
			pk.Issuer = fmt.Sprintf("fixed%d", len(keys1024)+1)
			keys1024 = append(keys1024, KeyPair{sk, pk})
		}
	})
	return keys1024
}

var (
	key3Once  sync.Once
	key3      KeyPair
	k2048Once sync.Once
	k2048     KeyPair
)

// Key2048 is a 2048-bit key pair with 6 bases and a revocation part, generated once with
// gabikeys.GenerateKeyPair for this harness (test material only; the private key is in testdata).
func Key2048() KeyPair {
	k2048Once.Do(func() {
		sk, err := gabikeys.NewPrivateKeyFromXML(xmlPriv2048, false)
		if err != nil {
			Fatal("2048-bit private key: %v", err)
		}
		pk, err := gabikeys.NewPublicKeyFromXML(xmlPub2048)
		if err != nil {
			Fatal("2048-bit public key: %v", err)
		}
		if !sk.RevocationSupported() {
			if err := gabikeys.GenerateRevocationKeypair(sk, pk); err != nil {
				Fatal("revocation keypair: %v", err)
			}
		}
		pk.Issuer = "fixed2048"
		k2048 = KeyPair{sk, pk}
	})
	return k2048
}

// Key3 is the third fixed 1024-bit key pair of the repository's tests (given there as raw numbers).
func Key3() KeyPair {
	key3Once.Do(func() {
		var raw struct {
			P, Q, N, S, Z string
			R             []string
		}
		if err := json.Unmarshal(key3json, &raw); err != nil {
			Fatal("key3: %v", err)
		}
		b := func(s string) *big.Int {
			x, ok := new(big.Int).SetString(s, 10)
			if !ok {
				Fatal("key3: bad number")
			}
			return x
		}
		var rs []*big.Int
		for _, r := range raw.R {
			rs = append(rs, b(r))
		}
		sk, err := gabikeys.NewPrivateKey(b(raw.P), b(raw.Q), "", 0, time.Now().AddDate(1, 0, 0))
		if err != nil {
			Fatal("key3: %v", err)
		}
		pk, err := gabikeys.NewPublicKey(b(raw.N), b(raw.Z), b(raw.S), nil, nil, rs, "", 0, time.Now().AddDate(1, 0, 0))
		if err != nil {
			Fatal("key3: %v", err)
		}
		if err := gabikeys.GenerateRevocationKeypair(sk, pk); err != nil {
			Fatal("key3 revocation keypair: %v", err)
		}
		pk.Issuer = "fixed3"
		key3 = KeyPair{sk, pk}
	})
	return key3
}

// Issue runs the real issuance protocol between a fresh CredentialBuilder and the issuer of kp.
func Issue(kp KeyPair, context, secret, keyshareP *big.Int, attrs []*big.Int, witness *revocation.Witness, blind []int) (*gabi.Credential, error) {
	nonce1, _ := gabi.GenerateNonce()
	nonce2, _ := gabi.GenerateNonce()
	cb, err := gabi.NewCredentialBuilder(kp.PK, context, secret, nonce2, keyshareP, blind)
	if err != nil {
		return nil, err
	}
	icm, err := cb.CommitToSecretAndProve(nonce1)
	if err != nil {
		return nil, err
	}
	// (with a keyshare contribution the commitment proof only verifies after merging the server's ProofP: not run here)
	if keyshareP == nil && !icm.Proofs.Verify([]*gabikeys.PublicKey{kp.PK}, context, nonce1, false, nil) {
		return nil, fmt.Errorf("issuer: commitment proof does not verify")
	}
	ism, err := gabi.NewIssuer(kp.SK, kp.PK, context).IssueSignature(icm.U, attrs, witness, nonce2, blind)
	if err != nil {
		return nil, err
	}
	return cb.ConstructCredential(ism, attrs)
}

// NewRevocation starts an accumulator for kp and returns a fresh valid witness for it.
func NewRevocation(kp KeyPair) (*revocation.Witness, *revocation.Update, error) {
	update, err := revocation.NewAccumulator(kp.SK)
	if err != nil {
		return nil, nil, err
	}
	acc, err := update.SignedAccumulator.UnmarshalVerify(kp.PK)
	if err != nil {
		return nil, nil, err
	}
	w, err := revocation.RandomWitness(kp.SK, acc)
	if err != nil {
		return nil, nil, err
	}
	w.SignedAccumulator = update.SignedAccumulator
	return w, update, nil
}

// ToyRevocationKey builds a key that is sufficient for the revocation package only (modulus of
// two `bits`-bit safe primes, G, H, ECDSA key), as the repository's revocation tests do.
func ToyRevocationKey(bits int, counter uint) KeyPair {
	deadline := make(chan struct{})
	timer := time.AfterFunc(60*time.Second, func() { close(deadline) })
	defer timer.Stop()
	var p, q *big.Int
	var err error
	for {
		p, err = safeprime.Generate(bits, deadline)
		if err != nil || p == nil {
			Fatal("safe prime generation failed: %v", err)
		}
		q, err = safeprime.Generate(bits, deadline)
		if err != nil || q == nil {
			Fatal("safe prime generation failed: %v", err)
		}
		if p.Cmp(q) != 0 {
			break
		}
	}
	n := new(big.Int).Mul(p, q)
	pp := new(big.Int).Rsh(p, 1)
	qp := new(big.Int).Rsh(q, 1)
	ec, err := signed.GenerateKey()
	if err != nil {
		Fatal("ecdsa: %v", err)
	}
	sk := &gabikeys.PrivateKey{Counter: counter, ECDSA: ec, P: p, Q: q, PPrime: pp, QPrime: qp, N: n}
	sk.Order = new(big.Int).Mul(pp, qp)
	pk := &gabikeys.PublicKey{Counter: counter, ECDSA: &ec.PublicKey, N: n, G: RandomQR(n), H: RandomQR(n)}
	return KeyPair{sk, pk}
}

// RandomQR returns a random square modulo n (not via the library).
func RandomQR(n *big.Int) *big.Int {
	for {
		r, err := big.RandInt(crand.Reader, n)
		if err != nil {
			Fatal("rand: %v", err)
		}
		if r.Sign() == 0 {
			continue
		}
		g := new(big.Int).GCD(nil, nil, r, n)
		if g.Cmp(big.NewInt(1)) != 0 {
			continue
		}
		return r.Mul(r, r).Mod(r, n)
	}
}

// D10Ambiguous reports the known finding D10 pattern on an honest disclosure proof with a non-revocation part:
// some hidden response other than the one of the witness attribute (revIdx) is below 2^(195+256+128+1), so that
// ProofD.revocationAttrIndex (map iteration order) may pick the wrong response and verification fails.
func D10Ambiguous(p *gabi.ProofD, revIdx int) bool {
	if p == nil || p.NonRevocationProof == nil {
		return false
	}
	bound := new(big.Int).Lsh(big.NewInt(1), 195+256+128+1)
	for i, r := range p.AResponses {
		if i != revIdx && r.Cmp(bound) < 0 {
			return true
		}
	}
	return false
}

// FreshKey1024 parses fixed key pair i (0 or 1) anew: a key object nothing has used yet.
func FreshKey1024(i int) KeyPair {
	x := [][2]string{{xmlPrivKey1, xmlPubKey1}, {xmlPrivKey2, xmlPubKey2}}[i]
	sk, err := gabikeys.NewPrivateKeyFromXML(x[0], false)
	if err != nil {
		Fatal("fixed private key: %v", err)
	}
	pk, err := gabikeys.NewPublicKeyFromXML(x[1])
	if err != nil {
		Fatal("fixed public key: %v", err)
	}
	if err := gabikeys.GenerateRevocationKeypair(sk, pk); err != nil {
		Fatal("revocation keypair: %v", err)
	}
	pk.Issuer = fmt.Sprintf("fresh%d", i+1)
	return KeyPair{sk, pk}
}
